//! Operation kinds of the history language: how to construct the a10 future,
//! what the SQE must look like (independent expectation), what the simulated
//! kernel does when it completes it, and what the future must then return.

use std::future::Future;
use std::io;
use std::pin::Pin;
use std::task::{Context, Poll};

use serde::{Deserialize, Serialize};

use crate::abi::{self, Sqe};
use crate::sim::regions;
use crate::sim::Req;
use crate::track;

use super::world::World;

/// Normalised output of any operation.
#[derive(Debug, Clone, PartialEq, Eq)]
pub enum Out {
    Unit,
    Count(usize),
    Bytes(Vec<u8>),
    /// A scalar result (socket option value, file size from statx).
    Value(u64),
    /// Received bytes and the sender address the kernel reported.
    BytesFrom(Vec<u8>, String),
    /// A socket address.
    Addr(String),
    Err { raw: Option<i32>, kind: io::ErrorKind },
}

impl Out {
    pub fn from_err(e: &io::Error) -> Out {
        Out::Err { raw: e.raw_os_error(), kind: e.kind() }
    }
}

pub trait DynFut {
    fn poll(&mut self, cx: &mut Context<'_>) -> Poll<Out>;
}

struct FutBox<F: Future, M: FnMut(F::Output) -> Out> {
    fut: Pin<Box<F>>,
    map: M,
}

impl<F: Future, M: FnMut(F::Output) -> Out> DynFut for FutBox<F, M> {
    fn poll(&mut self, cx: &mut Context<'_>) -> Poll<Out> {
        self.fut.as_mut().poll(cx).map(&mut self.map)
    }
}

fn boxed<F: Future + 'static, M: FnMut(F::Output) -> Out + 'static>(fut: F, map: M) -> Box<dyn DynFut> {
    Box::new(FutBox { fut: Box::pin(fut), map })
}

#[derive(Clone, Debug, Serialize, Deserialize, PartialEq, Eq)]
pub enum OpKind {
    /// `AsyncFd::truncate(tag)`: no resources, carries a unique 64 bit tag.
    Truncate,
    /// `AsyncFd::write(&'static [u8])`.
    WriteStatic { len: u16 },
    /// `AsyncFd::write(Vec<u8>)`.
    WriteVec { len: u16 },
    /// `AsyncFd::read(Vec<u8>)` with `prefill` bytes already in the vector.
    ReadVec { cap: u16, prefill: u16 },
    /// `AsyncFd::write_vectored([Vec<u8>; 2])`: iovec array + two buffers.
    WriteVectored { a: u16, b: u16 },
    /// `AsyncFd::read_vectored([Vec<u8>; 2])`.
    ReadVectored { a: u16, b: u16 },
    /// `AsyncFd::send_to(Vec<u8>, SocketAddr)`: buffer + address storage.
    SendTo { len: u16, v6: bool },
    /// `AsyncFd::recv_from::<Vec<u8>, SocketAddr>`: msghdr, iovec, address
    /// storage and buffer, all written by the kernel.
    RecvFrom { cap: u16 },
    /// `AsyncFd::socket_option::<RecvBuf>()`: option value out-parameter.
    SockOpt,
    /// `AsyncFd::metadata()`: statx result buffer inside the operation.
    Statx,
    /// `AsyncFd::connect(SocketAddr)`: address storage read by the kernel.
    Connect { v6: bool },
    /// `AsyncFd::recv(Vec<u8>).flags(..)`: non-default arguments, which a
    /// re-issue has to repeat. `flags` selects a subset of [`RECV_FLAGS`].
    Recv { cap: u16, flags: u8 },
    /// `AsyncFd::send(Vec<u8>).flags(..)`, `flags` a subset of [`SEND_FLAGS`].
    Send { len: u16, flags: u8 },
    /// `AsyncFd::read(Vec<u8>).from(off)`.
    ReadAt { cap: u16, off: u32 },
    /// `AsyncFd::write(Vec<u8>).at(off)`.
    WriteAt { len: u16, off: u32 },
    /// `fs::create_dir(sq, path)`: a path string read by the kernel.
    CreateDir { len: u8 },
    /// `fs::remove_file` / `fs::remove_dir`.
    Remove { len: u8, dir: bool },
    /// `fs::rename(sq, from, to)`: two path strings.
    Rename { a: u8, b: u8 },
    /// `AsyncFd::bind(SocketAddr)`: address storage read by the kernel.
    Bind { v6: bool },
    /// `process::wait(sq, WaitOn::Process(pid)).flags(EXITED)`: siginfo
    /// out-parameter inside the operation.
    Wait { pid: u16 },
    /// `AsyncFd::recv_from_vectored::<[Vec<u8>; 2], SocketAddr>`: msghdr,
    /// iovec array, two buffers and address storage, all kernel-written.
    RecvFromVectored { a: u16, b: u16 },
    /// `AsyncFd::recv_vectored([Vec<u8>; 2])`: msghdr without a name.
    RecvVectored { a: u16, b: u16 },
    /// `AsyncFd::send_to_vectored([Vec<u8>; 2], SocketAddr)`: msghdr, iovec
    /// array, two source buffers and the destination address.
    SendToVectored { a: u16, b: u16, v6: bool },
    /// `AsyncFd::send_vectored([Vec<u8>; 2])`.
    SendVectored { a: u16, b: u16 },
    /// `AsyncFd::local_addr` / `peer_addr`: address storage and its length,
    /// both written by the kernel (socket command, K16).
    SocketName { peer: bool },
    /// `AsyncFd::set_socket_option::<RecvBuf>(v)`: option value read by the
    /// kernel.
    SetSockOpt,
    /// `Signals::receive()`: a signalfd_siginfo out-parameter inside the
    /// operation (a real signalfd descriptor; its reads are simulated).
    ReceiveSignal,
    /// `AsyncFd::read(buf)` where `buf` owns a second AsyncFd: a resource
    /// whose Drop submits to the queue (a close) whenever and wherever a10
    /// drops the operation's resources.
    ReadOwning { cap: u16 },
}

/// A read buffer that owns a descriptor.
pub struct OwningBuf {
    pub data: Vec<u8>,
    pub fd: Option<a10::AsyncFd>,
}

unsafe impl a10::io::BufMut for OwningBuf {
    unsafe fn parts_mut(&mut self) -> (*mut u8, u32) {
        unsafe { a10::io::BufMut::parts_mut(&mut self.data) }
    }
    unsafe fn set_init(&mut self, n: usize) {
        unsafe { a10::io::BufMut::set_init(&mut self.data, n) }
    }
    fn spare_capacity(&self) -> u32 {
        a10::io::BufMut::spare_capacity(&self.data)
    }
    fn has_spare_capacity(&self) -> bool {
        a10::io::BufMut::has_spare_capacity(&self.data)
    }
}

thread_local! {
    /// Descriptors handed back by finished ReadOwning operations; dropped
    /// together with the history's descriptor.
    pub static OWNED_STASH: std::cell::RefCell<Vec<a10::AsyncFd>> = const { std::cell::RefCell::new(Vec::new()) };
}

pub fn drop_owned_stash() {
    let v: Vec<a10::AsyncFd> = OWNED_STASH.with(|s| std::mem::take(&mut *s.borrow_mut()));
    let _s = track::scope(track::TAG_A10);
    drop(v);
}

/// The path operation `id` names: `len` extra characters after a fixed stem.
pub fn path_for(id: usize, which: usize, len: u8) -> std::path::PathBuf {
    let mut p = format!("/a10verif-no-such-dir/op{id}-{which}-");
    for j in 0..len as usize {
        p.push((b'a' + ((id + j) % 26) as u8) as char);
    }
    std::path::PathBuf::from(p)
}

fn path_matches(seen: &[u8], want: &std::path::Path) -> bool {
    use std::os::unix::ffi::OsStrExt;
    let w = want.as_os_str().as_bytes();
    seen.starts_with(w) && (seen.len() == w.len() || seen[w.len()] == 0)
}

pub const RECV_FLAGS: [(a10::net::RecvFlag, i32); 4] = [(a10::net::RecvFlag::PEEK, libc::MSG_PEEK), (a10::net::RecvFlag::WAIT_ALL, libc::MSG_WAITALL), (a10::net::RecvFlag::OOB, libc::MSG_OOB), (a10::net::RecvFlag::CMSG_CLOEXEC, libc::MSG_CMSG_CLOEXEC)];
pub const SEND_FLAGS: [(a10::net::SendFlag, i32); 4] = [(a10::net::SendFlag::MORE, libc::MSG_MORE), (a10::net::SendFlag::DONT_ROUTE, libc::MSG_DONTROUTE), (a10::net::SendFlag::EOR, libc::MSG_EOR), (a10::net::SendFlag::CONFIRM, libc::MSG_CONFIRM)];

fn recv_flags(bits: u8) -> (Option<a10::net::RecvFlag>, u32) {
    let mut acc: Option<a10::net::RecvFlag> = None;
    let mut raw = 0u32;
    for (k, (f, r)) in RECV_FLAGS.iter().enumerate() {
        if bits & (1 << k) != 0 {
            acc = Some(match acc {
                Some(a) => a | *f,
                None => *f,
            });
            raw |= *r as u32;
        }
    }
    (acc, raw)
}

fn send_flags(bits: u8) -> (Option<a10::net::SendFlag>, u32) {
    let mut acc: Option<a10::net::SendFlag> = None;
    let mut raw = 0u32;
    for (k, (f, r)) in SEND_FLAGS.iter().enumerate() {
        if bits & (1 << k) != 0 {
            acc = Some(match acc {
                Some(a) => a | *f,
                None => *f,
            });
            raw |= *r as u32;
        }
    }
    (acc, raw)
}

impl OpKind {
    pub fn name(&self) -> &'static str {
        match self {
            OpKind::Truncate => "truncate",
            OpKind::WriteStatic { .. } => "write[static]",
            OpKind::WriteVec { .. } => "write[vec]",
            OpKind::ReadVec { .. } => "read[vec]",
            OpKind::WriteVectored { .. } => "write_vectored",
            OpKind::ReadVectored { .. } => "read_vectored",
            OpKind::SendTo { .. } => "send_to",
            OpKind::RecvFrom { .. } => "recv_from",
            OpKind::SockOpt => "socket_option",
            OpKind::Statx => "metadata",
            OpKind::Connect { .. } => "connect",
            OpKind::Recv { .. } => "recv[flags]",
            OpKind::Send { .. } => "send[flags]",
            OpKind::ReadAt { .. } => "read[from]",
            OpKind::WriteAt { .. } => "write[at]",
            OpKind::CreateDir { .. } => "create_dir",
            OpKind::Remove { .. } => "remove",
            OpKind::Rename { .. } => "rename",
            OpKind::Bind { .. } => "bind",
            OpKind::Wait { .. } => "wait",
            OpKind::RecvFromVectored { .. } => "recv_from_vectored",
            OpKind::RecvVectored { .. } => "recv_vectored",
            OpKind::SendToVectored { .. } => "send_to_vectored",
            OpKind::SendVectored { .. } => "send_vectored",
            OpKind::SocketName { .. } => "socket_name",
            OpKind::SetSockOpt => "set_socket_option",
            OpKind::ReceiveSignal => "receive_signal",
            OpKind::ReadOwning { .. } => "read[owning]",
        }
    }
    pub fn has_memory(&self) -> bool {
        !matches!(self, OpKind::Truncate)
    }
    pub fn valued(&self) -> bool {
        !matches!(self, OpKind::Truncate | OpKind::Connect { .. } | OpKind::CreateDir { .. } | OpKind::Remove { .. } | OpKind::Rename { .. } | OpKind::Bind { .. } | OpKind::SetSockOpt)
    }
}

/// Final outcome of an attempt as scripted by the case.
#[derive(Clone, Debug, Serialize, Deserialize, PartialEq, Eq)]
pub enum Outcome {
    /// Success; `frac` scales the result into the op's legal range.
    Ok { frac: u16 },
    /// Failure with the `idx`-th errno of [`ERRNOS`].
    Err { idx: u8 },
    /// The kernel refuses the submission while submitting it (K15): the
    /// error completion is posted at consumption.
    Refused { idx: u8 },
}

/// Errnos used for scripted failures. EINTR/ECANCELED are faults (restart),
/// EINVAL is mapped by a10 onto `Unsupported`, so neither is in here.
pub const ERRNOS: &[i32] = &[
    libc::EIO,
    libc::EBADF,
    libc::EAGAIN,
    libc::ENOMEM,
    libc::EACCES,
    libc::EFAULT,
    libc::EBUSY,
    libc::ENOSPC,
    libc::EPIPE,
    libc::EFBIG,
    libc::ENOTCONN,
    libc::ECONNRESET,
    libc::EOVERFLOW,
    libc::EDQUOT,
];

#[derive(Copy, Clone, Debug, Serialize, Deserialize, PartialEq, Eq)]
pub enum Fault {
    Eintr,
    Ecanceled,
}

impl Fault {
    pub fn errno(self) -> i32 {
        match self {
            Fault::Eintr => libc::EINTR,
            Fault::Ecanceled => libc::ECANCELED,
        }
    }
}

static PATTERN: [u8; 8192] = {
    let mut p = [0u8; 8192];
    let mut i = 0;
    while i < 8192 {
        p[i] = ((i * 131 + 7) % 251) as u8;
        i += 1;
    }
    p
};

pub fn pattern_byte(op: usize, j: usize) -> u8 {
    (op.wrapping_mul(31).wrapping_add(j.wrapping_mul(7)).wrapping_add(1)) as u8
}

pub fn tag_for(op: usize) -> u64 {
    0x5A10_0000_0000 + (op as u64) * 0x1_0001 + 1
}

#[derive(Clone, Debug, PartialEq, Eq)]
pub enum Expect {
    Unit,
    Count(usize),
    /// The buffer handed back must be `bytes`.
    Bytes(Vec<u8>),
    Value(u64),
    BytesFrom(Vec<u8>, String),
    Addr(String),
    Errno(i32),
}

/// Live state of one operation.
pub struct OpState {
    pub id: usize,
    pub kind: OpKind,
    pub fd: Option<usize>,
    /// Raw descriptor number the SQE must carry.
    pub fd_raw: i32,
    /// What the kernel saw as source bytes must equal this (writes).
    pub source: Vec<u8>,
    /// Contents the destination buffer had before the operation (reads).
    pub before: Vec<u8>,
    /// Heap address of the buffer the case gave to the operation.
    pub buf_addr: usize,
    pub expect: Option<Expect>,
    /// The operation goes through a direct descriptor: `fd_raw` is its index
    /// and every submission must carry IOSQE_FIXED_FILE.
    pub fixed: bool,
    /// ReadOwning: the number of the descriptor the buffer owns.
    pub owned_fd: Option<i32>,
}

impl OpState {
    /// Build the a10 future. Buffers are tagged RESOURCE.
    pub fn start(id: usize, kind: &OpKind, world: &mut World, fd: usize) -> (OpState, Box<dyn DynFut>) {
        let afd = world.fd(fd);
        let fd_raw = world.direct_index.unwrap_or_else(|| sim_fd_number(afd));
        let uses_fd = !matches!(kind, OpKind::CreateDir { .. } | OpKind::Remove { .. } | OpKind::Rename { .. } | OpKind::Wait { .. } | OpKind::ReceiveSignal);
        let mut st = OpState { id, kind: kind.clone(), fd: Some(fd), fd_raw, source: Vec::new(), before: Vec::new(), buf_addr: 0, expect: None, fixed: world.direct_index.is_some() && uses_fd, owned_fd: None };
        let fut: Box<dyn DynFut> = match kind {
            OpKind::Truncate => {
                let _s = track::scope(track::TAG_A10);
                boxed(afd.truncate(tag_for(id)), |r| match r {
                    Ok(()) => Out::Unit,
                    Err(e) => Out::from_err(&e),
                })
            }
            OpKind::WriteStatic { len } => {
                let len = (*len as usize).min(PATTERN.len());
                st.source = PATTERN[..len].to_vec();
                st.buf_addr = PATTERN.as_ptr().addr();
                let buf: &'static [u8] = &PATTERN[..len];
                let _s = track::scope(track::TAG_A10);
                boxed(afd.write(buf), |r| match r {
                    Ok(n) => Out::Count(n),
                    Err(e) => Out::from_err(&e),
                })
            }
            OpKind::WriteVec { len } => {
                let buf: Vec<u8> = {
                    let _s = track::scope(track::TAG_RESOURCE);
                    (0..*len as usize).map(|j| pattern_byte(id, j)).collect()
                };
                st.source = buf.clone();
                st.buf_addr = buf.as_ptr().addr();
                let _s = track::scope(track::TAG_A10);
                boxed(afd.write(buf), |r| match r {
                    Ok(n) => Out::Count(n),
                    Err(e) => Out::from_err(&e),
                })
            }
            OpKind::ReadVec { cap, prefill } => {
                let cap = (*cap as usize).max(1);
                let prefill = (*prefill as usize).min(cap - 1);
                let buf: Vec<u8> = {
                    let _s = track::scope(track::TAG_RESOURCE);
                    let mut v = Vec::with_capacity(cap);
                    v.extend((0..prefill).map(|j| pattern_byte(id + 77, j)));
                    v
                };
                st.before = buf.clone();
                st.buf_addr = buf.as_ptr().addr();
                let _s = track::scope(track::TAG_A10);
                boxed(afd.read(buf), |r| match r {
                    Ok(v) => Out::Bytes(v),
                    Err(e) => Out::from_err(&e),
                })
            }
            OpKind::ReadOwning { cap } => {
                let raw = crate::sim::sim().issue_fd();
                let sq = world.sq();
                let buf = {
                    let _s = track::scope(track::TAG_RESOURCE);
                    OwningBuf { data: Vec::with_capacity((*cap as usize).max(1)), fd: Some(unsafe { a10::AsyncFd::from_raw_fd(raw, sq) }) }
                };
                st.owned_fd = Some(raw);
                st.buf_addr = buf.data.as_ptr().addr();
                let _s = track::scope(track::TAG_A10);
                boxed(afd.read(buf), |r| match r {
                    Ok(mut b) => {
                        // Kept until the history's descriptor goes (no close
                        // is submitted from inside a poll).
                        if let Some(fd) = b.fd.take() {
                            OWNED_STASH.with(|s| s.borrow_mut().push(fd));
                        }
                        Out::Bytes(std::mem::take(&mut b.data))
                    }
                    Err(e) => Out::from_err(&e),
                })
            }
            OpKind::WriteVectored { a, b } => {
                let (va, vb): (Vec<u8>, Vec<u8>) = {
                    let _s = track::scope(track::TAG_RESOURCE);
                    ((0..*a as usize).map(|j| pattern_byte(id, j)).collect(), (0..*b as usize).map(|j| pattern_byte(id + 5, j)).collect())
                };
                st.source = [va.clone(), vb.clone()].concat();
                st.buf_addr = va.as_ptr().addr();
                let _s = track::scope(track::TAG_A10);
                boxed(afd.write_vectored([va, vb]), |r| match r {
                    Ok(n) => Out::Count(n),
                    Err(e) => Out::from_err(&e),
                })
            }
            OpKind::ReadVectored { a, b } => {
                let (va, vb): (Vec<u8>, Vec<u8>) = {
                    let _s = track::scope(track::TAG_RESOURCE);
                    (Vec::with_capacity((*a as usize).max(1)), Vec::with_capacity((*b as usize).max(1)))
                };
                st.buf_addr = va.as_ptr().addr();
                let _s = track::scope(track::TAG_A10);
                boxed(afd.read_vectored([va, vb]), |r| match r {
                    Ok([x, y]) => Out::Bytes([x, y].concat()),
                    Err(e) => Out::from_err(&e),
                })
            }
            OpKind::SendTo { len, v6 } => {
                let buf: Vec<u8> = {
                    let _s = track::scope(track::TAG_RESOURCE);
                    (0..*len as usize).map(|j| pattern_byte(id, j)).collect()
                };
                st.source = buf.clone();
                st.buf_addr = buf.as_ptr().addr();
                let addr = sock_addr(id, *v6);
                let _s = track::scope(track::TAG_A10);
                boxed(afd.send_to(buf, addr), |r| match r {
                    Ok(n) => Out::Count(n),
                    Err(e) => Out::from_err(&e),
                })
            }
            OpKind::RecvFrom { cap } => {
                let buf: Vec<u8> = {
                    let _s = track::scope(track::TAG_RESOURCE);
                    Vec::with_capacity((*cap as usize).max(1))
                };
                st.buf_addr = buf.as_ptr().addr();
                let _s = track::scope(track::TAG_A10);
                boxed(afd.recv_from::<Vec<u8>, std::net::SocketAddr>(buf), |r| match r {
                    Ok((v, addr, _)) => Out::BytesFrom(v, addr.to_string()),
                    Err(e) => Out::from_err(&e),
                })
            }
            OpKind::SockOpt => {
                let _s = track::scope(track::TAG_A10);
                boxed(afd.socket_option::<a10::net::option::RecvBuf>(), |r| match r {
                    Ok(v) => Out::Value(v as u64),
                    Err(e) => Out::from_err(&e),
                })
            }
            OpKind::Statx => {
                let _s = track::scope(track::TAG_A10);
                boxed(afd.metadata(), |r| match r {
                    Ok(m) => Out::Value(m.len()),
                    Err(e) => Out::from_err(&e),
                })
            }
            OpKind::Connect { v6 } => {
                let addr = sock_addr(id, *v6);
                let _s = track::scope(track::TAG_A10);
                boxed(afd.connect(addr), |r| match r {
                    Ok(()) => Out::Unit,
                    Err(e) => Out::from_err(&e),
                })
            }
            OpKind::Recv { cap, flags } => {
                let buf: Vec<u8> = {
                    let _s = track::scope(track::TAG_RESOURCE);
                    Vec::with_capacity((*cap as usize).max(1))
                };
                st.buf_addr = buf.as_ptr().addr();
                let _s = track::scope(track::TAG_A10);
                let mut op = afd.recv(buf);
                if let (Some(f), _) = recv_flags(*flags) {
                    op = op.flags(f);
                }
                boxed(op, |r| match r {
                    Ok(v) => Out::Bytes(v),
                    Err(e) => Out::from_err(&e),
                })
            }
            OpKind::Send { len, flags } => {
                let buf: Vec<u8> = {
                    let _s = track::scope(track::TAG_RESOURCE);
                    (0..*len as usize).map(|j| pattern_byte(id, j)).collect()
                };
                st.source = buf.clone();
                st.buf_addr = buf.as_ptr().addr();
                let _s = track::scope(track::TAG_A10);
                let mut op = afd.send(buf);
                if let (Some(f), _) = send_flags(*flags) {
                    op = op.flags(f);
                }
                boxed(op, |r| match r {
                    Ok(n) => Out::Count(n),
                    Err(e) => Out::from_err(&e),
                })
            }
            OpKind::ReadAt { cap, off } => {
                let buf: Vec<u8> = {
                    let _s = track::scope(track::TAG_RESOURCE);
                    Vec::with_capacity((*cap as usize).max(1))
                };
                st.buf_addr = buf.as_ptr().addr();
                let _s = track::scope(track::TAG_A10);
                boxed(afd.read(buf).from(*off as u64), |r| match r {
                    Ok(v) => Out::Bytes(v),
                    Err(e) => Out::from_err(&e),
                })
            }
            OpKind::WriteAt { len, off } => {
                let buf: Vec<u8> = {
                    let _s = track::scope(track::TAG_RESOURCE);
                    (0..*len as usize).map(|j| pattern_byte(id, j)).collect()
                };
                st.source = buf.clone();
                st.buf_addr = buf.as_ptr().addr();
                let _s = track::scope(track::TAG_A10);
                boxed(afd.write(buf).at(*off as u64), |r| match r {
                    Ok(n) => Out::Count(n),
                    Err(e) => Out::from_err(&e),
                })
            }
            OpKind::CreateDir { len } => {
                st.fd_raw = libc::AT_FDCWD;
                let path = {
                    let _s = track::scope(track::TAG_RESOURCE);
                    path_for(id, 0, *len)
                };
                let sq = world.sq();
                let _s = track::scope(track::TAG_A10);
                boxed(a10::fs::create_dir(sq, path), |r| match r {
                    Ok(()) => Out::Unit,
                    Err(e) => Out::from_err(&e),
                })
            }
            OpKind::Remove { len, dir } => {
                st.fd_raw = libc::AT_FDCWD;
                let path = {
                    let _s = track::scope(track::TAG_RESOURCE);
                    path_for(id, 0, *len)
                };
                let sq = world.sq();
                let _s = track::scope(track::TAG_A10);
                let fut = if *dir { a10::fs::remove_dir(sq, path) } else { a10::fs::remove_file(sq, path) };
                boxed(fut, |r| match r {
                    Ok(()) => Out::Unit,
                    Err(e) => Out::from_err(&e),
                })
            }
            OpKind::Rename { a, b } => {
                st.fd_raw = libc::AT_FDCWD;
                let (from, to) = {
                    let _s = track::scope(track::TAG_RESOURCE);
                    (path_for(id, 0, *a), path_for(id, 1, *b))
                };
                let sq = world.sq();
                let _s = track::scope(track::TAG_A10);
                boxed(a10::fs::rename(sq, from, to), |r| match r {
                    Ok(()) => Out::Unit,
                    Err(e) => Out::from_err(&e),
                })
            }
            OpKind::Bind { v6 } => {
                let addr = sock_addr(id, *v6);
                let _s = track::scope(track::TAG_A10);
                boxed(afd.bind(addr), |r| match r {
                    Ok(()) => Out::Unit,
                    Err(e) => Out::from_err(&e),
                })
            }
            OpKind::RecvFromVectored { a, b } | OpKind::RecvVectored { a, b } => {
                let (va, vb): (Vec<u8>, Vec<u8>) = {
                    let _s = track::scope(track::TAG_RESOURCE);
                    (Vec::with_capacity((*a as usize).max(1)), Vec::with_capacity((*b as usize).max(1)))
                };
                st.buf_addr = va.as_ptr().addr();
                let _s = track::scope(track::TAG_A10);
                if matches!(kind, OpKind::RecvFromVectored { .. }) {
                    boxed(afd.recv_from_vectored::<[Vec<u8>; 2], std::net::SocketAddr, 2>([va, vb]), |r| match r {
                        Ok(([x, y], addr, _)) => Out::BytesFrom([x, y].concat(), addr.to_string()),
                        Err(e) => Out::from_err(&e),
                    })
                } else {
                    boxed(afd.recv_vectored([va, vb]), |r| match r {
                        Ok(([x, y], _)) => Out::Bytes([x, y].concat()),
                        Err(e) => Out::from_err(&e),
                    })
                }
            }
            OpKind::SendToVectored { a, b, .. } | OpKind::SendVectored { a, b } => {
                let (va, vb): (Vec<u8>, Vec<u8>) = {
                    let _s = track::scope(track::TAG_RESOURCE);
                    ((0..*a as usize).map(|j| pattern_byte(id, j)).collect(), (0..*b as usize).map(|j| pattern_byte(id + 5, j)).collect())
                };
                st.source = [va.clone(), vb.clone()].concat();
                st.buf_addr = va.as_ptr().addr();
                let _s = track::scope(track::TAG_A10);
                if let OpKind::SendToVectored { v6, .. } = kind {
                    boxed(afd.send_to_vectored([va, vb], sock_addr(id, *v6)), |r| match r {
                        Ok(n) => Out::Count(n),
                        Err(e) => Out::from_err(&e),
                    })
                } else {
                    boxed(afd.send_vectored([va, vb]), |r| match r {
                        Ok(n) => Out::Count(n),
                        Err(e) => Out::from_err(&e),
                    })
                }
            }
            OpKind::SocketName { peer } => {
                let _s = track::scope(track::TAG_A10);
                let fut = if *peer { afd.peer_addr::<std::net::SocketAddr>() } else { afd.local_addr::<std::net::SocketAddr>() };
                boxed(fut, |r| match r {
                    Ok(a) => Out::Addr(a.to_string()),
                    Err(e) => Out::from_err(&e),
                })
            }
            OpKind::SetSockOpt => {
                let _s = track::scope(track::TAG_A10);
                boxed(afd.set_socket_option::<a10::net::option::RecvBuf>(70_000 + id as u32), |r| match r {
                    Ok(()) => Out::Unit,
                    Err(e) => Out::from_err(&e),
                })
            }
            OpKind::ReceiveSignal => {
                let signals = world.signals();
                st.fd_raw = -2; // Any descriptor: the signalfd's number is not public.
                let _s = track::scope(track::TAG_A10);
                boxed(signals.receive(), |r| match r {
                    Ok(info) => Out::Value(((if info.signal() == a10::process::Signal::USER2 { libc::SIGUSR2 as u64 } else { 0 }) << 32) | info.pid() as u64),
                    Err(e) => Out::from_err(&e),
                })
            }
            OpKind::Wait { pid } => {
                st.fd_raw = 100_000 + *pid as i32;
                let sq = world.sq();
                let _s = track::scope(track::TAG_A10);
                boxed(a10::process::wait(sq, a10::process::WaitOn::Process(100_000 + *pid as u32)).flags(a10::process::WaitOption::EXITED), |r| match r {
                    Ok(info) => Out::Value(info.pid() as u64),
                    Err(e) => Out::from_err(&e),
                })
            }
        };
        (st, fut)
    }

    /// ReadOwning is a plain read into a vector as far as the kernel goes.
    fn norm_kind(&self) -> OpKind {
        match &self.kind {
            OpKind::ReadOwning { cap } => OpKind::ReadVec { cap: *cap, prefill: 0 },
            k => k.clone(),
        }
    }

    /// Independent expectation of the submission (everything except
    /// user_data, which the caller checks for plausibility and uniqueness).
    pub fn check_sqe(&self, sqe: &Sqe) -> Result<(), String> {
        let mut normalised = *sqe;
        if self.fixed {
            if sqe.flags & abi::IOSQE_FIXED_FILE == 0 {
                return Err(format!("submission of {} on a direct descriptor (index {}) does not carry IOSQE_FIXED_FILE: the kernel would use {} as a file descriptor number", self.kind.name(), self.fd_raw, sqe.fd));
            }
            normalised.flags &= !abi::IOSQE_FIXED_FILE;
        } else if sqe.flags & abi::IOSQE_FIXED_FILE != 0 {
            return Err(format!("submission of {} carries IOSQE_FIXED_FILE although it does not go through a direct descriptor", self.kind.name()));
        }
        let sqe = &normalised;
        let mut want = Sqe::zeroed();
        want.user_data = sqe.user_data;
        want.fd = self.fd_raw;
        match &self.norm_kind() {
            OpKind::Truncate => {
                want.opcode = abi::OP_FTRUNCATE;
                want.off = tag_for(self.id);
            }
            OpKind::WriteStatic { .. } | OpKind::WriteVec { .. } => {
                want.opcode = abi::OP_WRITE;
                want.off = u64::MAX;
                want.addr = self.buf_addr as u64;
                want.len = self.source.len() as u32;
                if self.source.is_empty() {
                    // An empty vector has a dangling pointer; any address is fine.
                    want.addr = sqe.addr;
                }
            }
            OpKind::WriteVectored { .. } | OpKind::ReadVectored { .. } | OpKind::SendTo { .. } | OpKind::RecvFrom { .. } | OpKind::SockOpt | OpKind::Statx | OpKind::Connect { .. } | OpKind::CreateDir { .. } | OpKind::Remove { .. } | OpKind::Rename { .. } | OpKind::Bind { .. } | OpKind::Wait { .. } | OpKind::RecvFromVectored { .. } | OpKind::RecvVectored { .. } | OpKind::SendToVectored { .. } | OpKind::SendVectored { .. } | OpKind::SocketName { .. } | OpKind::SetSockOpt | OpKind::ReceiveSignal => {
                // Opcode and descriptor only: the full encodings are C13's.
                let opcode = match &self.kind {
                    OpKind::RecvFromVectored { .. } | OpKind::RecvVectored { .. } => abi::OP_RECVMSG,
                    OpKind::SendToVectored { .. } | OpKind::SendVectored { .. } => abi::OP_SENDMSG,
                    OpKind::SocketName { .. } | OpKind::SetSockOpt => abi::OP_URING_CMD,
                    OpKind::ReceiveSignal => abi::OP_READ,
                    OpKind::CreateDir { .. } => abi::OP_MKDIRAT,
                    OpKind::Remove { .. } => abi::OP_UNLINKAT,
                    OpKind::Rename { .. } => abi::OP_RENAMEAT,
                    OpKind::Bind { .. } => abi::OP_BIND,
                    OpKind::Wait { .. } => abi::OP_WAITID,
                    OpKind::WriteVectored { .. } => abi::OP_WRITEV,
                    OpKind::ReadVectored { .. } => abi::OP_READV,
                    OpKind::SendTo { .. } => abi::OP_SEND,
                    OpKind::RecvFrom { .. } => abi::OP_RECVMSG,
                    OpKind::SockOpt => abi::OP_URING_CMD,
                    OpKind::Statx => abi::OP_STATX,
                    _ => abi::OP_CONNECT,
                };
                if sqe.opcode != opcode || (sqe.fd != self.fd_raw && self.fd_raw != -2) {
                    return Err(format!("submission of {} has opcode {} on descriptor {}, expected opcode {opcode} on {}", self.kind.name(), sqe.opcode, sqe.fd, self.fd_raw));
                }
                let cmd = sqe.off as u32;
                match &self.kind {
                    OpKind::SocketName { peer } if cmd != abi::SOCKET_URING_OP_GETSOCKNAME || (sqe.file_index != 0) != *peer => {
                        return Err(format!("submission of socket_name (peer {peer}) carries command {cmd} with peer flag {}", sqe.file_index));
                    }
                    OpKind::SetSockOpt if cmd != abi::SOCKET_URING_OP_SETSOCKOPT => {
                        return Err(format!("submission of set_socket_option carries command {cmd}"));
                    }
                    OpKind::ReceiveSignal if sqe.len as usize != size_of::<libc::signalfd_siginfo>() => {
                        return Err(format!("submission of receive_signal reads {} bytes, a signalfd_siginfo has {}", sqe.len, size_of::<libc::signalfd_siginfo>()));
                    }
                    _ => {}
                }
                return Ok(());
            }
            OpKind::Recv { cap, flags } => {
                let (_, raw) = recv_flags(*flags);
                if sqe.opcode != abi::OP_RECV || sqe.fd != self.fd_raw || sqe.addr != self.buf_addr as u64 || (sqe.len as usize) < (*cap as usize).max(1) {
                    return Err(format!("submission of recv differs from the expected encoding: got {sqe:?}, want opcode RECV on {} with the caller's buffer {:#x}+{}", self.fd_raw, self.buf_addr, cap));
                }
                if sqe.op_flags != raw {
                    return Err(format!("submission of recv carries msg_flags {:#x}, the caller asked for {raw:#x}", sqe.op_flags));
                }
                return Ok(());
            }
            OpKind::Send { flags, .. } => {
                let (_, raw) = send_flags(*flags);
                if sqe.opcode != abi::OP_SEND || sqe.fd != self.fd_raw || (!self.source.is_empty() && sqe.addr != self.buf_addr as u64) || sqe.len as usize != self.source.len() {
                    return Err(format!("submission of send differs from the expected encoding: got {sqe:?}, want opcode SEND on {} with the caller's buffer {:#x}+{}", self.fd_raw, self.buf_addr, self.source.len()));
                }
                // a10 always adds MSG_NOSIGNAL.
                if sqe.op_flags & !(libc::MSG_NOSIGNAL as u32) != raw {
                    return Err(format!("submission of send carries msg_flags {:#x}, the caller asked for {raw:#x}", sqe.op_flags));
                }
                return Ok(());
            }
            OpKind::ReadAt { cap, off } => {
                want.opcode = abi::OP_READ;
                want.off = *off as u64;
                want.addr = self.buf_addr as u64;
                want.len = sqe.len;
                if (sqe.len as usize) < (*cap as usize).max(1) {
                    return Err(format!("READ len {} smaller than spare capacity {}", sqe.len, cap));
                }
            }
            OpKind::WriteAt { off, .. } => {
                want.opcode = abi::OP_WRITE;
                want.off = *off as u64;
                want.addr = self.buf_addr as u64;
                want.len = self.source.len() as u32;
                if self.source.is_empty() {
                    want.addr = sqe.addr;
                }
            }
            OpKind::ReadOwning { .. } => unreachable!("normalised"),
            OpKind::ReadVec { cap, prefill } => {
                let cap = (*cap as usize).max(1);
                let prefill = (*prefill as usize).min(cap - 1);
                want.opcode = abi::OP_READ;
                want.off = u64::MAX;
                want.addr = (self.buf_addr + prefill) as u64;
                // Vec::with_capacity may round the capacity up.
                want.len = sqe.len;
                if (sqe.len as usize) < cap - prefill {
                    return Err(format!("READ len {} smaller than spare capacity {}", sqe.len, cap - prefill));
                }
            }
        }
        if *sqe != want {
            return Err(format!("submission differs from the expected encoding: got {sqe:?}, want {want:?}"));
        }
        Ok(())
    }

    /// The simulated kernel executes the request with the scripted outcome:
    /// performs the memory effects through the request's regions (K6) and
    /// returns `(res, flags)`. Sets `self.expect`.
    pub fn kernel_complete(&mut self, req: &Req, outcome: &Outcome) -> Result<(i32, u32), String> {
        if let Outcome::Err { idx } | Outcome::Refused { idx } = outcome {
            let e = ERRNOS[(*idx as usize + self.id) % ERRNOS.len()];
            self.expect = Some(Expect::Errno(e));
            return Ok((-e, 0));
        }
        let Outcome::Ok { frac } = outcome else { unreachable!() };
        let scale = |max: usize| -> usize { ((*frac as usize) * (max + 1)) >> 16 };
        match &self.norm_kind() {
            OpKind::Truncate => {
                self.expect = Some(Expect::Unit);
                Ok((0, 0))
            }
            OpKind::WriteStatic { .. } | OpKind::WriteVec { .. } | OpKind::Send { .. } | OpKind::WriteAt { .. } => {
                let n = scale(self.source.len());
                if let Some(region) = req.regions.iter().find(|r| r.what == "buffer") {
                    match regions::read_region(region, 0, region.len) {
                        Some(seen) if seen == self.source => {}
                        Some(_) => return Err("C01:source-buffer-changed: bytes of the source buffer changed while the kernel held it".into()),
                        None => return Err("C01:region-moved: source buffer no longer where the submission said".into()),
                    }
                }
                self.expect = Some(Expect::Count(n));
                Ok((n as i32, 0))
            }
            OpKind::WriteVectored { .. } | OpKind::SendVectored { .. } | OpKind::SendToVectored { .. } => {
                if let OpKind::SendToVectored { v6, .. } = &self.kind {
                    match req.regions.iter().find(|r| r.what == "msg-name") {
                        Some(region) => match regions::read_region(region, 0, region.len) {
                            Some(raw) if raw_matches(&raw, self.id, *v6) => {}
                            Some(raw) => return Err(format!("C01:address-changed: the destination address the kernel reads is {raw:?}, not the caller's")),
                            None => return Err("C01:region-moved: address storage no longer where the msghdr said".into()),
                        },
                        None => return Err("C01:region-not-owned: the message header designates no readable destination address".into()),
                    }
                }
                let mut seen = Vec::new();
                for region in req.regions.iter().filter(|r| r.what == "iovec-target") {
                    match regions::read_region(region, 0, region.len) {
                        Some(bytes) => seen.extend_from_slice(&bytes),
                        None => return Err("C01:region-moved: a vectored source buffer is no longer where the iovec said".into()),
                    }
                }
                if seen != self.source {
                    return Err("C01:source-buffer-changed: the bytes the iovecs designate are not the caller's buffers".into());
                }
                let n = scale(self.source.len());
                self.expect = Some(Expect::Count(n));
                Ok((n as i32, 0))
            }
            OpKind::ReadVectored { .. } | OpKind::RecvVectored { .. } | OpKind::RecvFromVectored { .. } => {
                let targets: Vec<&regions::Region> = req.regions.iter().filter(|r| r.what == "iovec-target").collect();
                let total: usize = targets.iter().map(|r| r.len).sum();
                let n = scale(total);
                let data: Vec<u8> = (0..n).map(|j| pattern_byte(self.id, j)).collect();
                let mut off = 0;
                for r in targets {
                    let take = (n - off).min(r.len);
                    if take > 0 && !regions::write_region(r, 0, &data[off..off + take]) {
                        return Err("C01:region-moved: a vectored destination buffer is no longer where the iovec said".into());
                    }
                    off += take;
                }
                if matches!(self.kind, OpKind::RecvVectored { .. } | OpKind::RecvFromVectored { .. }) && !req.regions.iter().any(|r| r.what == "msghdr") {
                    return Err("C01:region-not-owned: recvmsg request without a valid msghdr".into());
                }
                if matches!(self.kind, OpKind::RecvFromVectored { .. }) {
                    let from = sock_addr(self.id + 1000, false);
                    let raw = raw_v4(&from);
                    let (Some(name), Some(hdr)) = (req.regions.iter().find(|r| r.what == "msg-name"), req.regions.iter().find(|r| r.what == "msghdr")) else {
                        return Err("C01:region-not-owned: recvmsg request without valid msghdr/address storage".into());
                    };
                    if name.len < raw.len() || !regions::write_region(name, 0, &raw) {
                        return Err("C01:region-moved: address storage no longer where the msghdr said".into());
                    }
                    let namelen_off = std::mem::offset_of!(libc::msghdr, msg_namelen);
                    if !regions::write_region(hdr, namelen_off, &(raw.len() as u32).to_ne_bytes()) {
                        return Err("C01:region-moved: msghdr no longer where the submission said".into());
                    }
                    self.expect = Some(Expect::BytesFrom(data, from.to_string()));
                    return Ok((n as i32, 0));
                }
                self.expect = Some(Expect::Bytes(data));
                Ok((n as i32, 0))
            }
            OpKind::SocketName { peer } => {
                let (Some(lenr), Some(addr)) = (req.regions.iter().find(|r| r.what == "name-addrlen"), req.regions.iter().find(|r| r.what == "name-address")) else {
                    return Err("C01:region-not-owned: socket name request without valid address storage / length".into());
                };
                let name = sock_addr(self.id + if *peer { 3000 } else { 2000 } + (*frac as usize % 200), false);
                let raw = raw_v4(&name);
                if addr.len < raw.len() || !regions::write_region(addr, 0, &raw) {
                    return Err("C01:region-moved: address storage no longer where the submission said".into());
                }
                if !regions::write_region(lenr, 0, &(raw.len() as u32).to_ne_bytes()) {
                    return Err("C01:region-moved: address length no longer where the submission said".into());
                }
                self.expect = Some(Expect::Addr(name.to_string()));
                Ok((0, 0))
            }
            OpKind::SetSockOpt => {
                match req.regions.iter().find(|r| r.what == "optval") {
                    Some(region) => match regions::read_region(region, 0, region.len.min(4)) {
                        Some(raw) if raw.len() == 4 && u32::from_ne_bytes([raw[0], raw[1], raw[2], raw[3]]) == 70_000 + self.id as u32 => {}
                        Some(raw) => return Err(format!("C01:option-changed: the option value the kernel reads is {raw:?}, not the caller's {}", 70_000 + self.id as u32)),
                        None => return Err("C01:region-moved: option value no longer where the submission said".into()),
                    },
                    None => return Err("C01:region-not-owned: setsockopt request without a readable option value".into()),
                }
                self.expect = Some(Expect::Unit);
                Ok((0, 0))
            }
            OpKind::ReceiveSignal => {
                let Some(region) = req.regions.iter().find(|r| r.what == "buffer") else {
                    return Err("C01:region-not-owned: signalfd read without a valid destination".into());
                };
                let mut info: libc::signalfd_siginfo = unsafe { std::mem::zeroed() };
                info.ssi_signo = libc::SIGUSR2 as u32;
                info.ssi_pid = 200_000 + (*frac as u32) + self.id as u32 * 65_536;
                let raw = unsafe { std::slice::from_raw_parts((&raw const info).cast::<u8>(), size_of::<libc::signalfd_siginfo>()) };
                if region.len < raw.len() || !regions::write_region(region, 0, raw) {
                    return Err("C01:region-moved: signal information buffer no longer where the submission said".into());
                }
                self.expect = Some(Expect::Value(((libc::SIGUSR2 as u64) << 32) | info.ssi_pid as u64));
                Ok((raw.len() as i32, 0))
            }
            OpKind::SendTo { v6, .. } => {
                if let Some(region) = req.regions.iter().find(|r| r.what == "buffer") {
                    match regions::read_region(region, 0, region.len) {
                        Some(seen) if seen == self.source => {}
                        Some(_) => return Err("C01:source-buffer-changed: bytes of the source buffer changed while the kernel held it".into()),
                        None => return Err("C01:region-moved: source buffer no longer where the submission said".into()),
                    }
                }
                match req.regions.iter().find(|r| r.what == "send-address") {
                    Some(region) => match regions::read_region(region, 0, region.len) {
                        Some(raw) if raw_matches(&raw, self.id, *v6) => {}
                        Some(raw) => return Err(format!("C01:address-changed: the destination address the kernel reads is {raw:?}, not the caller's")),
                        None => return Err("C01:region-moved: address storage no longer where the submission said".into()),
                    },
                    None => return Err("C01:region-not-owned: the submission designates no readable destination address".into()),
                }
                let n = scale(self.source.len());
                self.expect = Some(Expect::Count(n));
                Ok((n as i32, 0))
            }
            OpKind::RecvFrom { .. } => {
                let Some(target) = req.regions.iter().find(|r| r.what == "iovec-target") else {
                    return Err("C01:region-not-owned: recvmsg request without a valid iovec target".into());
                };
                let n = scale(target.len);
                let data: Vec<u8> = (0..n).map(|j| pattern_byte(self.id, j)).collect();
                if !regions::write_region(target, 0, &data) {
                    return Err("C01:region-moved: destination buffer no longer where the iovec said".into());
                }
                // The sender's address and its length.
                let from = sock_addr(self.id + 1000, false);
                let raw = raw_v4(&from);
                let (Some(name), Some(hdr)) = (req.regions.iter().find(|r| r.what == "msg-name"), req.regions.iter().find(|r| r.what == "msghdr")) else {
                    return Err("C01:region-not-owned: recvmsg request without valid msghdr/address storage".into());
                };
                if name.len < raw.len() || !regions::write_region(name, 0, &raw) {
                    return Err("C01:region-moved: address storage no longer where the msghdr said".into());
                }
                let namelen_off = std::mem::offset_of!(libc::msghdr, msg_namelen);
                if !regions::write_region(hdr, namelen_off, &(raw.len() as u32).to_ne_bytes()) {
                    return Err("C01:region-moved: msghdr no longer where the submission said".into());
                }
                self.expect = Some(Expect::BytesFrom(data, from.to_string()));
                Ok((n as i32, 0))
            }
            OpKind::SockOpt => {
                let Some(region) = req.regions.iter().find(|r| r.what == "optval") else {
                    return Err("C01:region-not-owned: getsockopt request without a valid option buffer".into());
                };
                let value = 4096u32 + (*frac as u32);
                if region.len < 4 || !regions::write_region(region, 0, &value.to_ne_bytes()) {
                    return Err("C01:region-moved: option buffer no longer where the submission said".into());
                }
                self.expect = Some(Expect::Value(value as u64));
                Ok((4, 0))
            }
            OpKind::Statx => {
                let Some(region) = req.regions.iter().find(|r| r.what == "statx") else {
                    return Err("C01:region-not-owned: statx request without a valid result buffer".into());
                };
                let mut stx: libc::statx = unsafe { std::mem::zeroed() };
                stx.stx_mask = libc::STATX_BASIC_STATS;
                stx.stx_mode = libc::S_IFREG as u16 | 0o644;
                stx.stx_size = 7_000_000 + *frac as u64 + self.id as u64 * 65_536;
                let raw = unsafe { std::slice::from_raw_parts((&raw const stx).cast::<u8>(), size_of::<libc::statx>()) };
                if !regions::write_region(region, 0, raw) {
                    return Err("C01:region-moved: statx buffer no longer where the submission said".into());
                }
                self.expect = Some(Expect::Value(stx.stx_size));
                Ok((0, 0))
            }
            OpKind::CreateDir { len } | OpKind::Remove { len, .. } => {
                match req.regions.iter().find(|r| r.what == "path") {
                    Some(region) => match regions::read_region(region, 0, region.len) {
                        Some(raw) if path_matches(&raw, &path_for(self.id, 0, *len)) => {}
                        Some(raw) => return Err(format!("C01:path-changed: the path the kernel reads is {:?}, not the caller's", String::from_utf8_lossy(&raw))),
                        None => return Err("C01:region-moved: path string no longer where the submission said".into()),
                    },
                    None => return Err("C01:region-not-owned: the submission designates no readable path string".into()),
                }
                self.expect = Some(Expect::Unit);
                Ok((0, 0))
            }
            OpKind::Rename { a, b } => {
                for (what, which, len) in [("path", 0usize, *a), ("path2", 1usize, *b)] {
                    match req.regions.iter().find(|r| r.what == what) {
                        Some(region) => match regions::read_region(region, 0, region.len) {
                            Some(raw) if path_matches(&raw, &path_for(self.id, which, len)) => {}
                            Some(raw) => return Err(format!("C01:path-changed: the {what} the kernel reads is {:?}, not the caller's", String::from_utf8_lossy(&raw))),
                            None => return Err("C01:region-moved: path string no longer where the submission said".into()),
                        },
                        None => return Err("C01:region-not-owned: the submission designates no readable path string".into()),
                    }
                }
                self.expect = Some(Expect::Unit);
                Ok((0, 0))
            }
            OpKind::Wait { pid } => {
                let Some(region) = req.regions.iter().find(|r| r.what == "siginfo") else {
                    return Err("C01:region-not-owned: waitid request without a valid siginfo buffer".into());
                };
                // si_signo, si_errno, si_code, (padding), si_pid, si_uid, si_status.
                let mut raw = vec![0u8; size_of::<libc::siginfo_t>()];
                raw[0..4].copy_from_slice(&libc::SIGCHLD.to_ne_bytes());
                raw[8..12].copy_from_slice(&libc::CLD_EXITED.to_ne_bytes());
                let value = 100_000i32 + *pid as i32;
                raw[16..20].copy_from_slice(&value.to_ne_bytes());
                if !regions::write_region(region, 0, &raw) {
                    return Err("C01:region-moved: siginfo buffer no longer where the submission said".into());
                }
                self.expect = Some(Expect::Value(value as u64));
                Ok((0, 0))
            }
            OpKind::Connect { v6 } | OpKind::Bind { v6 } => {
                match req.regions.iter().find(|r| r.what == "address") {
                    Some(region) => match regions::read_region(region, 0, region.len) {
                        Some(raw) if raw_matches(&raw, self.id, *v6) => {}
                        Some(raw) => return Err(format!("C01:address-changed: the address the kernel reads is {raw:?}, not the caller's")),
                        None => return Err("C01:region-moved: address storage no longer where the submission said".into()),
                    },
                    None => return Err("C01:region-not-owned: connect request without a readable address".into()),
                }
                self.expect = Some(Expect::Unit);
                Ok((0, 0))
            }
            OpKind::ReadOwning { .. } => unreachable!("normalised"),
            OpKind::ReadVec { .. } | OpKind::Recv { .. } | OpKind::ReadAt { .. } => {
                let Some(region) = req.regions.iter().find(|r| r.what == "buffer") else {
                    self.expect = Some(Expect::Bytes(self.before.clone()));
                    return Ok((0, 0));
                };
                let n = scale(region.len);
                let data: Vec<u8> = (0..n).map(|j| pattern_byte(self.id, j)).collect();
                if !regions::write_region(region, 0, &data) {
                    return Err("C01:region-moved: destination buffer no longer where the submission said".into());
                }
                let mut want = self.before.clone();
                want.extend_from_slice(&data);
                self.expect = Some(Expect::Bytes(want));
                Ok((n as i32, 0))
            }
        }
    }

    /// An interrupted attempt scribbles over the destination (the bytes must
    /// never show up in the result).
    pub fn kernel_interrupt(&mut self, req: &Req) {
        if matches!(self.kind, OpKind::ReadVec { .. } | OpKind::Recv { .. } | OpKind::ReadAt { .. } | OpKind::ReadOwning { .. }) {
            if let Some(region) = req.regions.iter().find(|r| r.what == "buffer") {
                let junk = vec![0xEEu8; region.len.min(64)];
                let _ = regions::write_region(region, 0, &junk);
            }
        }
        if matches!(self.kind, OpKind::ReadVectored { .. } | OpKind::RecvFrom { .. } | OpKind::RecvVectored { .. } | OpKind::RecvFromVectored { .. }) {
            for region in req.regions.iter().filter(|r| r.what == "iovec-target") {
                let junk = vec![0xEEu8; region.len.min(64)];
                let _ = regions::write_region(region, 0, &junk);
            }
        }
    }

    /// Compare what the future returned with the expectation.
    pub fn check_output(&self, out: &Out) -> Result<(), String> {
        let Some(expect) = &self.expect else {
            return Err(format!("operation resolved with {out:?} although the kernel never completed it (made-up result)"));
        };
        let ok = match (expect, out) {
            (Expect::Unit, Out::Unit) => true,
            (Expect::Count(n), Out::Count(m)) => n == m,
            (Expect::Bytes(b), Out::Bytes(c)) => b == c,
            (Expect::Value(a), Out::Value(b)) => a == b,
            (Expect::BytesFrom(b, a), Out::BytesFrom(c, d)) => b == c && a == d,
            (Expect::Addr(a), Out::Addr(b)) => a == b,
            (Expect::Errno(e), Out::Err { raw, .. }) => *raw == Some(*e),
            _ => false,
        };
        if ok { Ok(()) } else { Err(format!("operation {} ({}) resolved with {} but the kernel's result for it was {}", self.id, self.kind.name(), brief(out), brief_expect(expect))) }
    }
}

/// The address operation `id` talks to.
pub fn sock_addr(id: usize, v6: bool) -> std::net::SocketAddr {
    let port = 1024 + (id as u16 % 60_000);
    if v6 {
        std::net::SocketAddr::V6(std::net::SocketAddrV6::new(std::net::Ipv6Addr::new(0xfd00, id as u16, 0, 0, 0, 0, 0, 1), port, 0, 0))
    } else {
        std::net::SocketAddr::V4(std::net::SocketAddrV4::new(std::net::Ipv4Addr::new(10, (id >> 8) as u8, id as u8, 1), port))
    }
}

fn raw_v4(addr: &std::net::SocketAddr) -> Vec<u8> {
    let std::net::SocketAddr::V4(a) = addr else { return Vec::new() };
    let mut s: libc::sockaddr_in = unsafe { std::mem::zeroed() };
    s.sin_family = libc::AF_INET as u16;
    s.sin_port = a.port().to_be();
    s.sin_addr.s_addr = u32::from_ne_bytes(a.ip().octets());
    unsafe { std::slice::from_raw_parts((&raw const s).cast::<u8>(), size_of::<libc::sockaddr_in>()) }.to_vec()
}

/// Does the raw socket address the kernel read designate `sock_addr(id, v6)`?
fn raw_matches(raw: &[u8], id: usize, v6: bool) -> bool {
    let want = sock_addr(id, v6);
    if raw.len() < 2 {
        return false;
    }
    let family = u16::from_ne_bytes([raw[0], raw[1]]) as i32;
    match want {
        std::net::SocketAddr::V4(a) => family == libc::AF_INET && raw.len() >= 8 && raw[2..4] == a.port().to_be_bytes() && raw[4..8] == a.ip().octets(),
        std::net::SocketAddr::V6(a) => family == libc::AF_INET6 && raw.len() >= 24 && raw[2..4] == a.port().to_be_bytes() && raw[8..24] == a.ip().octets(),
    }
}

fn brief(out: &Out) -> String {
    match out {
        Out::Bytes(b) if b.len() > 16 => format!("Bytes(len {}, {:?}..)", b.len(), &b[..16]),
        Out::BytesFrom(b, a) if b.len() > 16 => format!("BytesFrom(len {}, {:?}.., {a})", b.len(), &b[..16]),
        o => format!("{o:?}"),
    }
}

fn brief_expect(e: &Expect) -> String {
    match e {
        Expect::Bytes(b) if b.len() > 16 => format!("Bytes(len {}, {:?}..)", b.len(), &b[..16]),
        Expect::BytesFrom(b, a) if b.len() > 16 => format!("BytesFrom(len {}, {:?}.., {a})", b.len(), &b[..16]),
        o => format!("{o:?}"),
    }
}

/// The raw descriptor number of an AsyncFd (regular descriptors only).
pub fn sim_fd_number(fd: &a10::AsyncFd) -> i32 {
    use std::os::fd::AsRawFd;
    fd.as_fd().map(|f| f.as_raw_fd()).unwrap_or(-1)
}
