//! C03b — no lost wake-ups with the futures and the Ring on different
//! threads, decided under the baton scheduler (E4): submitter threads poll
//! operations (twice, the second time with a replaced waker) into a nearly
//! full queue while the ring thread runs Ring::poll and the kernel completes
//! what it consumed. Afterwards an executor that re-polls *only when woken*
//! must drive every operation to completion.

use std::future::Future;
use std::pin::Pin;
use std::sync::{Arc, Mutex};
use std::task::{Context, Poll};
use std::time::Duration;

use a10::Ring;
use serde::{Deserialize, Serialize};

use crate::common::Ctx;
use crate::interp::waker::WakerHandle;
use crate::interp::world::{RingCfg, World};
use crate::runner::catch;
use crate::sched;
use crate::sim::{self, SimEvent};
use crate::track;

#[derive(Clone, Debug, Serialize, Deserialize)]
pub struct WakeCase {
    pub sq_log2: u8,
    /// Free slots left after priming the queue (0..=2).
    pub gap: u8,
    /// Per submitter thread: number of operations (1..=2) and whether each is
    /// polled a second time with a new waker.
    pub submitters: Vec<(u8, bool)>,
    /// Ring::poll calls of the ring thread.
    pub polls: u8,
    /// The kernel completes what it has consumed before the k-th Ring::poll.
    pub complete_before_poll: Vec<bool>,
    /// All operations of one submitter thread share one waker (one task).
    #[serde(default)]
    pub shared_waker: bool,
    /// Rounds in which each submitter thread, like an executor, re-polls its
    /// operations whose waker was invoked, while the Ring thread is running.
    #[serde(default)]
    pub executor_rounds: u8,
    /// The Ring thread starts only after every submitter thread has polled
    /// its operations once.
    #[serde(default)]
    pub ring_waits: bool,
    pub wake_tape: Vec<u16>,
    /// Priority schedule (few preemptions, long runs) instead of the tape.
    #[serde(default)]
    pub pct: Option<sched::Pct>,
    /// The kernel completes every request inside the io_uring_enter call that
    /// consumed it (as it does for operations that do not have to wait).
    #[serde(default)]
    pub inline_complete: bool,
}

type Fut = Pin<Box<a10::fs::Truncate<'static>>>;

struct Slot {
    tag: u64,
    fut: Option<Fut>,
    waker: WakerHandle,
    /// Wake count of `waker` seen at the last poll.
    seen: u64,
    ready: bool,
}

struct SendSlots(Vec<Slot>);
unsafe impl Send for SendSlots {}
struct SendRing(Ring);
unsafe impl Send for SendRing {}

const TAG_BASE: u64 = 0xC03B_0000_0000;
const START_TOKEN: u64 = 0xC03B_57A7;

fn poll_slot(s: &mut Slot) -> Result<(), String> {
    let Some(f) = s.fut.as_mut() else { return Ok(()) };
    s.seen = s.waker.wakes();
    let mut cx = Context::from_waker(&s.waker.waker);
    let r = {
        let _s = track::scope(track::TAG_A10);
        catch(|| f.as_mut().poll(&mut cx))
    };
    match r {
        Err((m, l)) => {
            std::mem::forget(s.fut.take());
            Err(format!("poll panicked at {l}: {m}"))
        }
        Ok(Poll::Ready(Ok(()))) => {
            s.ready = true;
            let _s = track::scope(track::TAG_A10);
            s.fut = None;
            Ok(())
        }
        Ok(Poll::Ready(Err(e))) => {
            s.ready = true;
            let _s = track::scope(track::TAG_A10);
            s.fut = None;
            Err(format!("operation failed: {e}"))
        }
        Ok(Poll::Pending) => Ok(()),
    }
}

fn complete_inflight(ring_fd: i32) {
    let mut s = sim::sim();
    if let Some(idx) = s.ring_index(ring_fd) {
        let inflight: Vec<u64> = s.rings[idx].inflight.iter().filter(|r| !r.done && r.sqe.user_data >= 4).map(|r| r.serial).collect();
        for serial in inflight {
            s.rings[idx].complete(serial, 0, 0, false);
        }
    }
}

pub fn run(case: &WakeCase, ctx: &mut Ctx) -> Vec<&'static str> {
    let mut classes: Vec<&'static str> = Vec::new();
    let mut cfg = RingCfg::simple(case.sq_log2.min(2));
    cfg.cq_log2 = Some(6);
    let mut world = match World::new(&cfg) {
        Ok(w) => w,
        Err(e) => {
            ctx.infra(e);
            return classes;
        }
    };
    let len = cfg.sq_entries() as usize;
    let fd = world.new_fd();
    let afd = world.fd(fd);
    let ring_fd = world.ring_fd;
    let mut next_tag = 0u64;
    let new_slot = |next_tag: &mut u64| -> Slot {
        let tag = TAG_BASE + *next_tag;
        *next_tag += 1;
        let f = {
            let _s = track::scope(track::TAG_A10);
            Box::pin(afd.truncate(tag))
        };
        Slot { tag, fut: Some(f), waker: WakerHandle::new(), seen: 0, ready: false }
    };

    // Prime the queue sequentially.
    let primed = len.saturating_sub(case.gap.min(4) as usize);
    let mut all: Vec<Slot> = Vec::new();
    for _ in 0..primed {
        let mut s = new_slot(&mut next_tag);
        if let Err(e) = poll_slot(&mut s) {
            ctx.violation("C03:sched:panic", e);
            return classes;
        }
        all.push(s);
    }

    let results: Arc<Mutex<Vec<SendSlots>>> = Arc::new(Mutex::new(Vec::new()));
    let errors: Arc<Mutex<Vec<String>>> = Arc::new(Mutex::new(Vec::new()));
    let mut threads: Vec<Box<dyn FnOnce() + Send>> = Vec::new();
    let nthreads = case.submitters.len().clamp(1, 3);
    let started = Arc::new(std::sync::atomic::AtomicUsize::new(0));
    let ring_done = Arc::new(std::sync::atomic::AtomicBool::new(false));
    let exec_tokens: Arc<Mutex<Vec<u64>>> = Arc::new(Mutex::new(Vec::new()));
    let mut total_new = 0;
    for t in 0..nthreads {
        let (nops, repoll) = case.submitters.get(t).copied().unwrap_or((1, false));
        let nops = nops.clamp(1, 2);
        total_new += nops as usize;
        let mut slots = SendSlots((0..nops).map(|_| new_slot(&mut next_tag)).collect());
        let shared_waker = case.shared_waker;
        if shared_waker {
            let w = WakerHandle::new();
            for s in slots.0.iter_mut() {
                s.waker = w.clone();
            }
        }
        let rounds = case.executor_rounds.min(8);
        let started = started.clone();
        let ring_done = ring_done.clone();
        let exec_tokens = exec_tokens.clone();
        let results = results.clone();
        let errors = errors.clone();
        threads.push(Box::new(move || {
            let slots_ref = &mut slots;
            for s in slots_ref.0.iter_mut() {
                if let Err(e) = poll_slot(s) {
                    errors.lock().unwrap().push(e);
                }
            }
            if started.fetch_add(1, std::sync::atomic::Ordering::SeqCst) + 1 == nthreads {
                sched::notify(sched::Reason::Token(START_TOKEN));
            }
            if repoll {
                // Poll again with a replaced waker (the old one must not be
                // the only one that gets the wake-up).
                let w = WakerHandle::new();
                for s in slots_ref.0.iter_mut() {
                    if s.fut.is_some() {
                        s.waker = if shared_waker { w.clone() } else { s.waker.replacement() };
                        if let Err(e) = poll_slot(s) {
                            errors.lock().unwrap().push(e);
                        }
                    }
                }
            }
            // The task's executor: re-polls what was woken, concurrently with
            // the Ring thread.
            if rounds > 0 {
                for _ in 0..64 {
                    sched::point(sched::Kind::Syscall);
                    let mut polled = false;
                    for s in slots_ref.0.iter_mut() {
                        if s.fut.is_some() && s.waker.wakes() > s.seen {
                            polled = true;
                            if let Err(e) = poll_slot(s) {
                                errors.lock().unwrap().push(e);
                            }
                        }
                    }
                    if slots_ref.0.iter().all(|s| s.fut.is_none()) || ring_done.load(std::sync::atomic::Ordering::SeqCst) {
                        break;
                    }
                    if !polled {
                        if shared_waker {
                            // Sleep until the task is woken (or the Ring thread
                            // is done, which notifies every token).
                            let token = slots_ref.0.iter().find(|s| s.fut.is_some()).map(|s| s.waker.token());
                            if let Some(t) = token {
                                exec_tokens.lock().unwrap().push(t);
                                if ring_done.load(std::sync::atomic::Ordering::SeqCst) {
                                    break;
                                }
                                if !sched::park(sched::Reason::Token(t)) {
                                    break;
                                }
                            }
                        }
                    }
                }
            }
            results.lock().unwrap().push(slots);
        }));
    }
    let ring_slot: Arc<Mutex<Option<SendRing>>> = Arc::new(Mutex::new(world.ring.take().map(SendRing)));
    {
        let ring_slot = ring_slot.clone();
        let errors = errors.clone();
        let polls = case.polls.clamp(1, 3);
        let complete_before = case.complete_before_poll.clone();
        let ring_waits = case.ring_waits;
        let ring_done = ring_done.clone();
        let exec_tokens = exec_tokens.clone();
        threads.push(Box::new(move || {
            let mut ring = ring_slot.lock().unwrap().take();
            if ring_waits {
                let _ = sched::park(sched::Reason::Token(START_TOKEN));
            }
            for k in 0..polls {
                if complete_before.get(k as usize).copied().unwrap_or(false) {
                    sched::point(sched::Kind::Syscall);
                    complete_inflight(ring_fd);
                }
                if let Some(r) = ring.as_mut() {
                    let res = {
                        let _s = track::scope(track::TAG_A10);
                        catch(|| r.0.poll(Some(Duration::ZERO)))
                    };
                    match res {
                        Err((m, l)) => errors.lock().unwrap().push(format!("Ring::poll panicked at {l}: {m}")),
                        Ok(Err(e)) => errors.lock().unwrap().push(format!("Ring::poll failed: {e}")),
                        Ok(Ok(())) => {}
                    }
                }
            }
            *ring_slot.lock().unwrap() = ring;
            // Executors sleeping for a wake-up that will not come in this
            // phase continue sequentially afterwards.
            ring_done.store(true, std::sync::atomic::Ordering::SeqCst);
            for t in exec_tokens.lock().unwrap().iter() {
                sched::notify(sched::Reason::Token(*t));
            }
        }));
    }
    if case.inline_complete {
        sim::sim().enter_hook = Some(Box::new(|ring: &mut sim::SimRing, info: &sim::EnterInfo| {
            for serial in &info.consumed {
                if ring.req(*serial).is_some_and(|r| !r.done && r.sqe.user_data >= 4) {
                    ring.complete(*serial, 0, 0, false);
                }
            }
        }));
        classes.push("inline-completion");
    }
    let outcome = sched::run_either(&case.pct, &case.wake_tape, 20_000, false, threads);
    sim::sim().enter_hook = None;
    if case.pct.is_some() {
        classes.push("pct");
    }
    world.ring = ring_slot.lock().unwrap().take().map(|r| r.0);
    for f in results.lock().unwrap().drain(..) {
        all.extend(f.0);
    }
    if outcome.over_budget {
        ctx.infra("scheduler step budget exceeded");
        return classes;
    }
    for p in &outcome.panics {
        ctx.violation("C03:sched:panic", format!("thread panicked: {p}"));
    }
    for e in errors.lock().unwrap().drain(..) {
        ctx.violation("C03:sched:error", e);
    }
    if outcome.stuck {
        ctx.violation("C03:sched:deadlock", format!("no runnable thread; parked: {:?}", outcome.parked_at_end));
    }
    if outcome.interesting_switches > 0 {
        classes.push("switch-inside-a10");
    }
    if primed + total_new > len {
        classes.push("over-subscribed");
    }
    if case.shared_waker {
        classes.push("shared-waker");
    }
    if case.executor_rounds > 0 {
        classes.push("concurrent-executor");
    }

    // The executor: re-polls only what was woken. Phase A: the kernel
    // completes nothing ("even if no other operation ever completes"), only
    // Ring::poll runs; phase B: the kernel completes whatever it has.
    let published = |world: &World| -> Vec<u64> {
        let mut tags: Vec<u64> = sim::events_since(0).iter().filter_map(|e| if let SimEvent::Consumed { sqe, .. } = e { Some(sqe.off) } else { None }).collect();
        let mut s = sim::sim();
        if let Some(r) = s.ring(world.ring_fd) {
            let (head, tail) = (r.sq_head_shared(), r.sq_tail());
            let mut p = head;
            while p != tail {
                tags.push(r.read_sqe_slot(p).off);
                p = p.wrapping_add(1);
            }
        }
        tags
    };
    if !ctx.failed() {
        let mut stalled_rounds = 0;
        let mut phase_b = false;
        for _round in 0..120 {
            if phase_b {
                complete_inflight(ring_fd);
            }
            match catch(|| world.poll_ring(Some(Duration::ZERO))) {
                Err((m, l)) => {
                    ctx.violation("C03:sched:panic", format!("Ring::poll panicked at {l}: {m}"));
                    break;
                }
                Ok(Err(e)) => {
                    ctx.violation("C03:sched:error", format!("Ring::poll failed: {e}"));
                    break;
                }
                Ok(Ok(())) => {}
            }
            let mut progress = false;
            for s in all.iter_mut() {
                if s.fut.is_some() && s.waker.wakes() > s.seen {
                    progress = true;
                    if let Err(e) = poll_slot(s) {
                        ctx.violation("C03:sched:error", e);
                    }
                }
            }
            if all.iter().all(|s| s.ready) {
                break;
            }
            if progress {
                stalled_rounds = 0;
                continue;
            }
            stalled_rounds += 1;
            if stalled_rounds < 2 {
                continue;
            }
            // Two Ring::poll calls without any wake-up.
            if !phase_b {
                // Anybody waiting for queue space although there is room?
                let tags = published(&world);
                let (head, tail) = {
                    let mut s = sim::sim();
                    let r = s.the_ring();
                    (r.sq_head_shared(), r.sq_tail())
                };
                let free = len as u32 - tail.wrapping_sub(head);
                let waiting: Vec<u64> = all.iter().filter(|s| s.fut.is_some() && !tags.contains(&s.tag)).map(|s| s.tag).collect();
                if !waiting.is_empty() && free > 0 {
                    classes.push("blocked-on-full-queue");
                    ctx.violation(
                        "C03:sched:lost-queue-space-wakeup",
                        format!("operations tagged {waiting:x?} returned Pending because the submission queue was full and were never woken, although {free} of {len} slots are free and Ring::poll ran twice since (no other operation completing)"),
                    );
                    break;
                }
                phase_b = true;
                stalled_rounds = 0;
                continue;
            }
            // Phase B: everything the kernel had was completed and consumed.
            let inflight = {
                let mut s = sim::sim();
                s.the_ring().inflight.iter().filter(|r| !r.done && r.sqe.user_data >= 4).count()
            };
            let unconsumed = {
                let mut s = sim::sim();
                let r = s.the_ring();
                r.cq_tail().wrapping_sub(r.cq_head())
            };
            if inflight == 0 && unconsumed == 0 {
                let tags = published(&world);
                let stuck: Vec<u64> = all.iter().filter(|s| s.fut.is_some()).map(|s| s.tag).collect();
                let waiting: Vec<u64> = stuck.iter().copied().filter(|t| !tags.contains(t)).collect();
                if waiting.is_empty() {
                    ctx.violation("C03:sched:lost-completion-wakeup", format!("operations tagged {stuck:x?} were completed by the kernel and the completions consumed by Ring::poll, but the waker of their latest poll was never invoked"));
                } else {
                    ctx.violation("C03:sched:lost-queue-space-wakeup", format!("operations tagged {waiting:x?} wait for submission queue space and were never woken although the queue is empty and Ring::poll keeps running"));
                }
                break;
            }
        }
        if !ctx.failed() && !all.iter().all(|s| s.ready) {
            ctx.infra("C03b executor did not finish within its round budget");
        }
        if all.iter().any(|s| s.waker.wakes() > 0) {
            classes.push("woken");
        }
    }
    {
        let _s = track::scope(track::TAG_A10);
        drop(all);
        drop(world);
    }
    classes
}
