//! C05 — completions consumed exactly once, in order, wrap-safe; internal
//! ones ignored.

use proptest::prelude::*;

use crate::common::{Ctx, Tier};
use crate::strat;
use crate::interp::{self, History, Oracles};
use super::hist::{HCase, run_multi, with_multi};
use crate::runner::Property;

pub struct C05;

impl Property for C05 {
    const ID: &'static str = "C05";
    type Case = HCase;

    fn strategy(_tier: Tier) -> BoxedStrategy<HCase> {
        with_multi((strat::ring_cfg(4), proptest::collection::vec(strat::step(strat::kind_basic().boxed(), 0, 1), 0..60)).prop_map(|(cfg, steps)| History { cfg, steps, teardown: None }).boxed(), 1)
    }

    fn cases(tier: Tier) -> u32 {
        tier.pick(20_000, 2_000_000)
    }

    fn run(case: &HCase, ctx: &mut Ctx) {
        let case = match case {
            HCase::Seq(h) => h,
            HCase::Multi(m) => return run_multi(m, ctx, "C05", &[">=3-results-queued", ">=3-results-in-one-poll"]),
            HCase::Drop(_) | HCase::Composite(_) => return,
        };
        let oracles = Oracles { c05: true, ..Oracles::default() };
        let feats = interp::execute(case, oracles, ctx);
        ctx.nontrivial = (feats.contains("batch>=2") && (feats.contains("bookkeeping-cqe") || feats.contains("skip-cqe"))) || feats.contains("cq-wrapped") || feats.contains("overflow-flush");
        for f in &feats {
            if true {
                ctx.class(f);
            }
        }
        ctx.fingerprint = super::fingerprint(case, &feats);
    }

    fn rule() -> &'static str {
        "proptest histories (ring config incl. CQ size 1..64, generated start counters of both rings incl. 2^32-k, alternate ring layout; steps: start/poll/drop operations, kernel posts operation, bookkeeping (user_data 0-3) and F_SKIP completions in generated batches, Ring::poll with inline kernel actions) executed against real a10 over the simulated kernel; unpublished CQ slots are filled with a poison completion for a running operation. Non-trivial = one Ring::poll consumed >=2 CQEs of which >=1 bookkeeping/SKIP, or the CQ tail crossed 2^32, or an overflow flush happened. Distinct = distinct (ring class, feature set) fingerprints. One case in five runs the multi-completion driver (props/multi.rs: multishot accept, zero-copy sends, writes; several completions of one operation consumed by one or by several Ring::poll calls): each operation must be handed exactly the completions the kernel published for it, in publication order (per-operation FIFO of consumed completions against what the future yields); non-trivial (multi) = >= 3 results of one operation queued or consumed in one Ring::poll."
    }

    fn assumptions() -> Vec<&'static str> {
        vec![
            "simulated kernel obeys DESIGN.md section 3 (K1-K12); sequential consistency",
            "single consumer thread; head-store ordering w.r.t. other threads is covered by the scheduled sub-check only for instruction order",
        ]
    }
}
