//! The three io_uring system calls as implemented by the simulator.

use std::ffi::{c_int, c_uint, c_void};

use crate::abi::{self, Cqe, Params};
use crate::shims;
use crate::track;

use super::regions::{self, PBUF_HOLD, STATE_HOLD};
use super::{
    BLOCK_FN, CancelOutcome, CloseVia, EnterInfo, PbufRing, Sim, SimEvent, WaitOutcome, fail, set_errno, sim,
};

pub(super) unsafe fn sys_setup(entries: c_uint, p: *mut c_void) -> Option<c_int> {
    let _scope = track::scope(track::TAG_HARNESS);
    crate::sched::point(crate::sched::Kind::Syscall);
    let mut sim = sim();
    sim.setup(entries, p.cast::<Params>())
}

pub(super) unsafe fn sys_register(fd: c_int, opcode: c_uint, arg: *const c_void, nr_args: c_uint) -> Option<c_int> {
    let _scope = track::scope(track::TAG_HARNESS);
    crate::sched::point(crate::sched::Kind::Syscall);
    let mut sim = sim();
    let res = sim.register(fd, opcode, arg, nr_args);
    if let Some(ret) = res {
        let errno = if ret < 0 { unsafe { *libc::__errno_location() } } else { 0 };
        super::ev(SimEvent::Register { fd, opcode, nr_args, ret, errno });
        set_errno(errno);
    }
    res
}

pub(super) unsafe fn sys_enter(
    fd: c_int,
    to_submit: c_uint,
    min_complete: c_uint,
    flags: c_uint,
    arg: *const c_void,
    size: usize,
) -> Option<c_int> {
    let _scope = track::scope(track::TAG_HARNESS);
    if crate::sched::syscalls_poisoned() {
        // A scheduled run ran out of steps (some thread never stops calling
        // us): let it out.
        return fail(libc::EBADF);
    }
    crate::sched::point(crate::sched::Kind::Syscall);
    let mut guard = sim();
    guard.ring_index(fd)?;

    // Decode the extended argument (timeout).
    let mut timeout_ns = None;
    if flags & abi::ENTER_EXT_ARG != 0 {
        if size != size_of::<abi::GetEventsArg>() || arg.is_null() {
            return fail(libc::EINVAL);
        }
        let ext = unsafe { arg.cast::<abi::GetEventsArg>().read_unaligned() };
        if ext.ts != 0 {
            let ts = unsafe { (ext.ts as *const abi::KernelTimespec).read_unaligned() };
            timeout_ns = Some((ts.tv_sec as u64).saturating_mul(1_000_000_000).saturating_add(ts.tv_nsec as u64));
        }
    } else if !arg.is_null() {
        super::set_unsupported("io_uring_enter with a sigset argument".into());
        return fail(libc::EINVAL);
    }
    let known = abi::ENTER_GETEVENTS | abi::ENTER_SQ_WAKEUP | abi::ENTER_SQ_WAIT | abi::ENTER_EXT_ARG;
    if flags & !known != 0 {
        super::set_unsupported(format!("io_uring_enter flags {flags:#x}"));
        return fail(libc::EINVAL);
    }

    let (idx, info, mut ret) = {
        let sim: &mut Sim = &mut guard;
        let idx = sim.ring_index(fd).unwrap();
        if !sim.rings[idx].enabled {
            let e = libc::EBADFD;
            super::ev(SimEvent::Enter { fd, to_submit, min_complete, flags, timeout_ns, ret: -1, errno: e, consumed: 0, pending: 0 });
            return fail(e);
        }
        // K14: only the task a SINGLE_ISSUER ring is bound to may submit.
        if to_submit > 0 && sim.rings[idx].submitter_tid.is_some_and(|t| t != unsafe { libc::gettid() }) {
            let e = libc::EEXIST;
            super::ev(SimEvent::Enter { fd, to_submit, min_complete, flags, timeout_ns, ret: -1, errno: e, consumed: 0, pending: 0 });
            return fail(e);
        }
        sim.release_consumed_states(idx);
        let pending = sim.rings[idx].sq_pending();

        // K2: consumption.
        let mut consumed = Vec::new();
        let mut ret: i32 = 0;
        if sim.rings[idx].is_sqpoll() {
            if flags & abi::ENTER_SQ_WAKEUP != 0 {
                sim.sqpoll_wake(idx);
            }
            // The kernel thread consumes on its own (driver's kernel steps),
            // or, when modelled as prompt, right now.
            if sim.rings[idx].sqpoll_auto && !sim.rings[idx].sqpoll_idle {
                sim.rings[idx].inline = true;
                consumed = sim.consume_and_dispatch(idx, u32::MAX);
                sim.rings[idx].inline = false;
            }
            ret = to_submit as i32;
        } else if to_submit > 0 {
            sim.rings[idx].inline = true;
            consumed = sim.consume_and_dispatch(idx, to_submit);
            sim.rings[idx].inline = false;
            ret = consumed.len() as i32;
        }
        // K4: an enter flushes the overflow list when there is room.
        sim.rings[idx].flush_overflow();

        let info = EnterInfo { fd, to_submit, min_complete, flags, timeout_ns, consumed, pending };
        if let Some(mut hook) = sim.enter_hook.take() {
            // NOTE: the hook must not lock the simulator.
            let mut ring = std::mem::replace(&mut sim.rings[idx], placeholder_ring());
            // What the hook completes, completes inline (during submission).
            ring.inline = true;
            hook(&mut ring, &info);
            ring.inline = false;
            sim.rings[idx] = ring;
            sim.enter_hook = Some(hook);
            sim.rings[idx].flush_overflow();
        }
        (idx, info, ret)
    };

    // K11: waiting.
    let mut errno = 0;
    // K18: an injected failure of the wait (only when nothing was submitted:
    // otherwise the call reports the number of submitted entries).
    let injected = super::take_fail_enter();
    if injected != 0 && ret == 0 && flags & abi::ENTER_GETEVENTS != 0 {
        guard.rings[idx].flush_deferred();
        errno = injected;
    } else if flags & abi::ENTER_GETEVENTS != 0 {
        let want = min_complete.min(guard.rings[idx].cq_entries);
        loop {
            // K13: deferred task work runs now.
            if guard.rings[idx].flush_deferred() > 0 {
                guard.rings[idx].flush_overflow();
            }
            if guard.rings[idx].cq_ready() >= want {
                break;
            }
            if timeout_ns == Some(0) {
                errno = libc::ETIME;
                break;
            }
            let outcome = if let Some(mut hook) = guard.wait_hook.take() {
                let mut ring = std::mem::replace(&mut guard.rings[idx], placeholder_ring());
                let o = hook(&mut ring, &info);
                guard.rings[idx] = ring;
                guard.wait_hook = Some(hook);
                guard.rings[idx].flush_overflow();
                o
            } else {
                let block_fn = *BLOCK_FN.lock().unwrap_or_else(|e| e.into_inner());
                match block_fn {
                    Some(f) => {
                        drop(guard);
                        let o = f(fd);
                        guard = super::sim();
                        match guard.ring_index(fd) {
                            Some(i) if i == idx => {}
                            _ => return fail(libc::EBADF),
                        }
                        guard.rings[idx].flush_overflow();
                        o
                    }
                    None => WaitOutcome::Stuck,
                }
            };
            match outcome {
                WaitOutcome::Progress => continue,
                WaitOutcome::Interrupted => {
                    errno = libc::EINTR;
                    break;
                }
                WaitOutcome::Timeout | WaitOutcome::Stuck => {
                    if timeout_ns.is_some() {
                        errno = libc::ETIME;
                    } else {
                        // A wait without a timeout that nothing will ever
                        // satisfy: reported to the driver, the call returns as
                        // if interrupted so the case can go on.
                        guard.would_block_forever += 1;
                        errno = libc::EINTR;
                    }
                    break;
                }
            }
        }
    }
    // The kernel reports the number of submitted entries if there are any,
    // the wait error only otherwise.
    let n_consumed = info.consumed.len() as u32;
    if errno != 0 && ret == 0 {
        ret = -1;
    } else {
        errno = 0;
    }
    super::ev(SimEvent::Enter { fd, to_submit, min_complete, flags, timeout_ns, ret, errno, consumed: n_consumed, pending: info.pending });
    if ret < 0 {
        set_errno(errno);
    }
    Some(ret)
}

fn placeholder_ring() -> super::SimRing {
    super::SimRing {
        fd: -1,
        flags: 0,
        sq_entries: 1,
        cq_entries: 1,
        layout: super::Layout::KERNEL_6_18,
        sq_array_off: None,
        params_in: Params::default(),
        mem: std::ptr::null_mut(),
        mem_len: 0,
        sqes: std::ptr::null_mut(),
        sqes_len: 0,
        k_sq_head: 0,
        inflight: Vec::new(),
        overflow: Default::default(),
        pbufs: Vec::new(),
        files: Vec::new(),
        files_registered: false,
        enabled: false,
        closed: true,
        sqpoll_idle: false,
        sqpoll_auto: false,
        submitter_tid: None,
        prep_refuse: Vec::new(),
        posted: Vec::new(),
        next_seq: 0,
        sync_cancels: 0,
        deferred: std::collections::VecDeque::new(),
        inline: false,
    }
}

impl Sim {
    /// (State holds are released when the final CQE becomes visible in the
    /// ring, see `SimRing::post_raw`.)
    pub fn release_consumed_states(&mut self, _idx: usize) {}

    /// Consume up to `max` SQEs and run the built-in request handlers.
    pub fn consume_and_dispatch(&mut self, idx: usize, max: u32) -> Vec<u64> {
        // Requests are issued one at a time, in order (a cancel request only
        // sees what was issued before it).
        let mut serials = Vec::new();
        let mut left = max;
        while left > 0 {
            let one = self.rings[idx].consume(1, false);
            let Some(serial) = one.first() else { break };
            left -= 1;
            serials.push(*serial);
            let sqe = self.rings[idx].req(*serial).unwrap().sqe;
            if sqe.user_data >= 4 {
                let addr = (sqe.user_data & !1) as usize;
                match track::hold(*serial | STATE_HOLD, addr, 1, "op-state") {
                    track::Residence::Heap(_) => {}
                    _ => super::violation(
                        "C02:user-data-not-heap",
                        format!("user_data {:#x} of {} is not a live heap block", sqe.user_data, abi::opcode_name(sqe.opcode)),
                    ),
                }
            }
            self.dispatch_builtin(idx, *serial);
            // K15: a submission refused while it is being submitted gets its
            // error completion at once and, unless the ring was set up with
            // IORING_SETUP_SUBMIT_ALL, ends the batch (it counts as submitted).
            if let Some(pos) = self.rings[idx].prep_refuse.iter().position(|(ud, _)| *ud == sqe.user_data) {
                let (_, e) = self.rings[idx].prep_refuse.remove(pos);
                if self.rings[idx].req(*serial).is_some_and(|r| !r.done) {
                    self.rings[idx].complete(*serial, -e, 0, false);
                }
                if self.rings[idx].flags & abi::SETUP_SUBMIT_ALL == 0 {
                    break;
                }
            }
        }
        if !serials.is_empty() {
            self.rings[idx].publish_sq_head();
        }
        serials
    }

    /// Kernel thread (SQPOLL) step: consume everything that is published.
    pub fn sqpoll_consume(&mut self, idx: usize) -> Vec<u64> {
        if self.rings[idx].sqpoll_idle {
            return Vec::new();
        }
        self.consume_and_dispatch(idx, u32::MAX)
    }

    /// Kernel thread goes idle: sets NEED_WAKEUP (only legal when the SQ is empty).
    pub fn sqpoll_go_idle(&mut self, idx: usize) -> bool {
        let ring = &mut self.rings[idx];
        if ring.sq_pending() != 0 {
            return false;
        }
        ring.sqpoll_idle = true;
        ring.set_sq_flag(abi::SQ_NEED_WAKEUP, true);
        // The kernel re-checks the queue after setting the flag.
        if ring.sq_pending() != 0 {
            ring.sqpoll_idle = false;
            ring.set_sq_flag(abi::SQ_NEED_WAKEUP, false);
            return false;
        }
        true
    }

    pub fn sqpoll_wake(&mut self, idx: usize) {
        let ring = &mut self.rings[idx];
        ring.sqpoll_idle = false;
        ring.set_sq_flag(abi::SQ_NEED_WAKEUP, false);
        if let Some(t) = super::sqpoll_wake_token() {
            crate::sched::notify(crate::sched::Reason::Token(t));
        }
    }

    fn dispatch_builtin(&mut self, idx: usize, serial: u64) {
        let sqe = self.rings[idx].req(serial).unwrap().sqe;
        match sqe.opcode {
            abi::OP_ASYNC_CANCEL => {
                let cancel_flags = sqe.op_flags;
                if cancel_flags != 0 {
                    super::set_unsupported(format!("ASYNC_CANCEL flags {cancel_flags:#x}"));
                }
                let target = self.rings[idx].find_by_user_data(sqe.addr).filter(|t| t.serial != serial).cloned();
                let outcome = match (&target, self.cancel_hook.take()) {
                    (t, Some(mut hook)) => {
                        let req = self.rings[idx].req(serial).unwrap().clone();
                        let o = hook(&self.rings[idx], &req, t.as_ref());
                        self.cancel_hook = Some(hook);
                        o
                    }
                    (Some(_), None) => CancelOutcome::Wins,
                    (None, None) => CancelOutcome::NotFound,
                };
                let ring = &mut self.rings[idx];
                match (outcome, target) {
                    (CancelOutcome::Wins, Some(t)) if !t.zc_notif_pending => {
                        // The target is completed by task work (K13).
                        let inline = std::mem::replace(&mut ring.inline, false);
                        ring.complete(t.serial, -libc::ECANCELED, 0, false);
                        ring.inline = inline;
                        ring.complete(serial, 0, 0, false);
                    }
                    (CancelOutcome::Already, Some(_)) | (CancelOutcome::Wins, Some(_)) => {
                        ring.complete(serial, -libc::EALREADY, 0, false);
                    }
                    _ => {
                        ring.complete(serial, -libc::ENOENT, 0, false);
                    }
                }
            }
            abi::OP_MSG_RING => {
                if sqe.addr != abi::MSG_DATA {
                    super::set_unsupported("MSG_RING other than MSG_DATA".into());
                }
                let target_fd = sqe.fd;
                let res = self.msg_ring(target_fd, sqe.off, sqe.len as i32);
                self.rings[idx].complete(serial, res, 0, false);
            }
            abi::OP_CLOSE => {
                let res = self.do_close(idx, &sqe);
                self.rings[idx].complete(serial, res, 0, false);
            }
            _ => {}
        }
    }

    /// K9: post `{user_data, res}` to ring `target_fd`.
    fn msg_ring(&mut self, target_fd: i32, user_data: u64, res: i32) -> i32 {
        let Some(tidx) = self.ring_index(target_fd) else { return -libc::EBADFD };
        if !self.rings[tidx].enabled {
            return -libc::EBADFD;
        }
        self.rings[tidx].post_raw(Cqe { user_data, res, flags: 0 }, 0);
        0
    }

    /// K10: IORING_OP_CLOSE.
    fn do_close(&mut self, idx: usize, sqe: &abi::Sqe) -> i32 {
        if sqe.file_index != 0 {
            if sqe.fd != 0 {
                return -libc::EINVAL;
            }
            let slot = (sqe.file_index - 1) as usize;
            let ring = &mut self.rings[idx];
            if !ring.files_registered {
                return -libc::ENXIO;
            }
            if slot >= ring.files.len() {
                return -libc::EINVAL;
            }
            match ring.files[slot].take() {
                Some(_) => {
                    super::ev(SimEvent::Close { via: CloseVia::Sqe, fd: slot as i32, direct: true });
                    0
                }
                None => {
                    super::ev(SimEvent::Close { via: CloseVia::Sqe, fd: slot as i32, direct: true });
                    -libc::EBADF
                }
            }
        } else {
            let fd = sqe.fd;
            super::ev(SimEvent::Close { via: CloseVia::Sqe, fd, direct: false });
            if self.ring_index(fd).is_some() {
                // Closing a ring through the ring: not something a10 does.
                super::set_unsupported("IORING_OP_CLOSE on a ring descriptor".into());
                return -libc::EBADF;
            }
            match self.issued_fds.get_mut(&fd) {
                Some(open) if *open => {
                    *open = false;
                    shims::raw_close(fd);
                    if fd == 0 {
                        self.restore_stdin();
                    }
                    0
                }
                Some(_) => -libc::EBADF,
                None => {
                    // A descriptor the simulator doesn't own: really close it,
                    // as the kernel would (but never stdio).
                    if fd <= 2 {
                        return 0; // Observed through the event log.
                    }
                    if shims::raw_close(fd) == 0 { 0 } else { -libc::EBADF }
                }
            }
        }
    }

    fn register(&mut self, fd: c_int, opcode: c_uint, arg: *const c_void, nr_args: c_uint) -> Option<c_int> {
        if opcode == abi::REGISTER_SEND_MSG_RING {
            // Uses fd -1; the target ring is in the SQE.
            if fd != -1 || nr_args != 1 || arg.is_null() {
                return fail(libc::EINVAL);
            }
            let sqe = unsafe { arg.cast::<abi::Sqe>().read_unaligned() };
            self.ring_index(sqe.fd)?;
            if sqe.opcode != abi::OP_MSG_RING || sqe.addr != abi::MSG_DATA {
                return fail(libc::EINVAL);
            }
            let res = self.msg_ring(sqe.fd, sqe.off, sqe.len as i32);
            return if res < 0 { fail(-res) } else { Some(0) };
        }
        let idx = self.ring_index(fd)?;
        let count = self.register_count.entry(opcode).or_insert(0);
        *count += 1;
        if let Some((op, e)) = self.cfg.register_fail {
            if op == opcode {
                if opcode == abi::UNREGISTER_PBUF_RING && !arg.is_null() {
                    // A refused unregistration (e.g. a single-issuer ring
                    // called from another thread). Modelled as: no request
                    // can name the group any more, so the kernel never touches
                    // the buffers again although the call fails.
                    let reg = unsafe { arg.cast::<abi::BufReg>().read_unaligned() };
                    self.rings[idx].pbufs.retain(|p| p.bgid != reg.bgid);
                    track::release(PBUF_HOLD | ((fd as u64) << 16) | reg.bgid as u64);
                }
                return fail(e);
            }
        }
        match opcode {
            abi::REGISTER_ENABLE_RINGS => {
                if self.rings[idx].enabled {
                    return fail(libc::EBADFD);
                }
                self.rings[idx].enabled = true;
                if self.rings[idx].flags & abi::SETUP_SINGLE_ISSUER != 0 {
                    self.rings[idx].submitter_tid = Some(unsafe { libc::gettid() });
                }
                Some(0)
            }
            abi::REGISTER_FILES2 => {
                if nr_args as usize != size_of::<abi::RsrcRegister>() || arg.is_null() {
                    return fail(libc::EINVAL);
                }
                let reg = unsafe { arg.cast::<abi::RsrcRegister>().read_unaligned() };
                if reg.flags != abi::RSRC_REGISTER_SPARSE || reg.data != 0 || reg.tags != 0 || reg.resv2 != 0 {
                    super::set_unsupported("REGISTER_FILES2 that is not sparse".into());
                    return fail(libc::EINVAL);
                }
                if self.rings[idx].files_registered {
                    return fail(libc::EBUSY);
                }
                if reg.nr == 0 {
                    return fail(libc::EINVAL);
                }
                if reg.nr > 1 << 20 {
                    return fail(libc::EMFILE);
                }
                self.rings[idx].files = vec![None; reg.nr as usize];
                self.rings[idx].files_registered = true;
                Some(0)
            }
            abi::REGISTER_FILES_UPDATE => {
                if nr_args != 1 || arg.is_null() {
                    super::set_unsupported("REGISTER_FILES_UPDATE with nr_args != 1".into());
                    return fail(libc::EINVAL);
                }
                let up = unsafe { arg.cast::<abi::FilesUpdate>().read_unaligned() };
                let new_fd = unsafe { (up.fds as *const i32).read_unaligned() };
                if !self.rings[idx].files_registered {
                    return fail(libc::ENXIO);
                }
                let slot = up.offset as usize;
                if slot >= self.rings[idx].files.len() {
                    return fail(libc::EINVAL);
                }
                if new_fd == -1 {
                    let had = self.rings[idx].files[slot].take().is_some();
                    super::ev(SimEvent::Close { via: CloseVia::FilesUpdate, fd: slot as i32, direct: true });
                    let _ = had;
                    Some(1)
                } else {
                    self.rings[idx].files[slot] = Some(new_fd);
                    Some(1)
                }
            }
            abi::REGISTER_PBUF_RING => {
                if nr_args != 1 || arg.is_null() {
                    return fail(libc::EINVAL);
                }
                let reg = unsafe { arg.cast::<abi::BufReg>().read_unaligned() };
                if reg.flags != 0 {
                    super::set_unsupported("REGISTER_PBUF_RING flags".into());
                    return fail(libc::EINVAL);
                }
                if reg.resv.iter().any(|r| *r != 0) {
                    return fail(libc::EINVAL);
                }
                if reg.ring_addr == 0 || reg.ring_addr as usize % 4096 != 0 {
                    return fail(libc::EFAULT);
                }
                if !reg.ring_entries.is_power_of_two() || reg.ring_entries >= 65536 {
                    return fail(libc::EINVAL);
                }
                if self.rings[idx].pbufs.iter().any(|p| p.bgid == reg.bgid) {
                    return fail(libc::EEXIST);
                }
                let hold_id = PBUF_HOLD | ((fd as u64) << 16) | reg.bgid as u64;
                let len = reg.ring_entries as usize * 16;
                if track::hold(hold_id, reg.ring_addr as usize, len, "pbuf-ring") == track::Residence::Unknown {
                    super::violation(
                        "C01:region-not-owned:PBUF_RING:ring",
                        format!("buffer ring {:#x}+{len} is not in a live heap block", reg.ring_addr),
                    );
                }
                self.rings[idx].pbufs.push(PbufRing { addr: reg.ring_addr as usize, entries: reg.ring_entries, bgid: reg.bgid, head: 0 });
                Some(0)
            }
            abi::UNREGISTER_PBUF_RING => {
                if nr_args != 1 || arg.is_null() {
                    return fail(libc::EINVAL);
                }
                let reg = unsafe { arg.cast::<abi::BufReg>().read_unaligned() };
                let before = self.rings[idx].pbufs.len();
                self.rings[idx].pbufs.retain(|p| p.bgid != reg.bgid);
                if self.rings[idx].pbufs.len() == before {
                    return fail(libc::ENOENT);
                }
                track::release(PBUF_HOLD | ((fd as u64) << 16) | reg.bgid as u64);
                Some(0)
            }
            abi::REGISTER_SYNC_CANCEL => {
                if nr_args != 1 || arg.is_null() {
                    return fail(libc::EINVAL);
                }
                let reg = unsafe { arg.cast::<abi::SyncCancelReg>().read_unaligned() };
                if reg.flags != (abi::ASYNC_CANCEL_ANY | abi::ASYNC_CANCEL_ALL) {
                    super::set_unsupported(format!("SYNC_CANCEL flags {:#x}", reg.flags));
                    return fail(libc::EINVAL);
                }
                if reg.pad.iter().any(|p| *p != 0) || reg.pad2.iter().any(|p| *p != 0) {
                    return fail(libc::EINVAL);
                }
                // K7: every in-flight request gets a -ECANCELED final.
                let serials: Vec<u64> = self.rings[idx].inflight.iter().filter(|r| !r.done).map(|r| r.serial).collect();
                let ring = &mut self.rings[idx];
                let mut n = 0;
                for serial in serials {
                    let req = ring.req(serial).unwrap();
                    if req.zc_notif_pending {
                        // The request itself has completed; what is
                        // outstanding is the notification, which the network
                        // stack posts when it lets go of the pages. No
                        // cancellation reaches that.
                        continue;
                    }
                    ring.complete(serial, -libc::ECANCELED, 0, false);
                    n += 1;
                }
                ring.sync_cancels += n;
                if n == 0 { fail(libc::ENOENT) } else { Some(0) }
            }
            _ => {
                super::set_unsupported(format!("io_uring_register opcode {opcode}"));
                fail(libc::EINVAL)
            }
        }
    }
}

// Used by regions.rs.
#[allow(unused_imports)]
use regions::Region as _Region;
