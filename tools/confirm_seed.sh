#!/bin/sh
# Confirm a seeded change in its scratch worktree: builds, pinned suite passes
# with it, the demonstration fails with it and passes without it.
# usage: confirm_seed.sh <id> [worktree]
id=$1; wt=${2:-/tmp/seed-$id}
out=/verif/seeded/$id; mkdir -p "$out"
cd "$wt" || exit 2
git diff src/ > "$out/patch.diff"
[ -s "$out/patch.diff" ] || { echo "$id: empty patch"; exit 2; }
cp tests/seed_demo.rs "$out/seed_demo.rs" 2>/dev/null
cp SEED_NOTES.md "$out/SEED_NOTES.md" 2>/dev/null
export CARGO_NET_OFFLINE=true
mkdir -p /tmp/seedlogs
# 1. suite with change (demo moved away)
mv tests/seed_demo.rs /tmp/seedlogs/$id-demo.rs
python3 /verif/tools/runtests.py /tmp/seedlogs/$id-suite.log cargo test --workspace --no-fail-fast --offline
suite_rc=$?
mv /tmp/seedlogs/$id-demo.rs tests/seed_demo.rs
suite=$(grep -c "^test result: ok" /tmp/seedlogs/$id-suite.log)
suite_fail=$(grep "^test result:" /tmp/seedlogs/$id-suite.log | grep -vc " 0 failed")
# 2. demo with change
python3 /verif/tools/runtests.py /tmp/seedlogs/$id-with.log cargo test --offline --test seed_demo
with_rc=$?
# 3. demo without change
git apply -R "$out/patch.diff" || exit 2
python3 /verif/tools/runtests.py /tmp/seedlogs/$id-without.log cargo test --offline --test seed_demo
without_rc=$?
git apply "$out/patch.diff" || exit 2
echo "$id suite_rc=$suite_rc ok_results=$suite failing_results=$suite_fail demo_with_rc=$with_rc demo_without_rc=$without_rc" | tee "$out/confirm.txt"
# Hung test binaries (a10's suite occasionally hangs, DESIGN 11.6) keep kernel threads spinning.
pkill -f "$wt/target/debug/deps/[f]unctional-" 2>/dev/null
exit 0
